"""M-level harnesses for the per-node orchestration methods (C01 / C05 / C09 at the C++ method level), built on nodeh.
Each harness runs one real method of one real node class from the IR, on a node whose buffers are symbolic (list lengths case-split)
and whose content is an opaque test double, decodes the real result objects back from symbolic memory and compares the nested-list
value with Python list semantics applied to the input value.  Counterexamples are replayed through the public API of a natively
built libawkward (akrun) on real arrays."""
import itertools, os, re, z3
from . import runner, nodeh, fullnative
from .llbmc import same_off as _same_off
from .nodeh import NodeCtx, BV, Elem, NONE, compare, decode, value, concrete, SRC
from .mharness import mdischarge, module_of
from .oracle import guard
from .llbmc import Ptr, NULL, Unsupported


# ------------------------------------------------------------------------------------------------ Python reference semantics
def py_pad(lst, target, clip, none):
    if clip:
        return lst[:target] + [none] * max(0, target - len(lst))
    return lst + [none] * max(0, target - len(lst))


# ------------------------------------------------------------------------------------------------ node builders
WIDTHS = {'64': ('l', 64, False), '32': ('i', 32, False), 'U32': ('j', 32, True)}


def build_listoffset64(nc, lens, name='node', width='64'):
    """ListOffsetArray of the given offsets width over the opaque content, offsets[0] symbolic >= 0, list lengths concrete"""
    T, bits, uns = WIDTHS[width]
    n = len(lens)
    fo, sz, al, fields = nc.layout_of('LOA', '_ZNK7awkward17ListOffsetArrayOfI%sE6lengthEv' % T)
    first = nc.m.bv(name + '_off0')
    arr = z3.K(z3.BitVecSort(64), z3.BitVecVal(0, bits))
    offs = [first]
    for L in lens:
        offs.append(offs[-1] + L)
    for i, o in enumerate(offs):
        arr = z3.Store(arr, BV(i), o if bits == 64 else z3.Extract(bits - 1, 0, o))
    data = nc.m.array(name + '_offsets', ('i', bits), n + 1, const=True, arr=arr)
    top = 2 ** 40 if bits == 64 else (2 ** 31 - 1 if not uns else 2 ** 32 - 1) - sum(lens)
    if os.environ.get('VF_WILD_EMPTY') == '1' and sum(lens) == 0:
        # experiment: lists that are all empty may have their (equal) offsets anywhere - the documented validity rule exempts start == stop
        nc.m.assume(first >= (-2 ** 20 if not uns else 0), first <= top)
    else:
        nc.m.assume(first >= 0, first <= top, offs[-1] <= nc.lencontent)
    cells = nc.content_header(name, nc.vptr_of('N7awkward17ListOffsetArrayOfI%sEE' % T, 'LOA'))
    nc.index_cells(cells, fo[1], data, BV(0), BV(n + 1), mangled_T=T)
    cells.update({fo[2]: (nc.content0, 8), fo[2] + 8: (NULL, 8), fo[3]: (BV(0, 8), 1)})
    this = nc.m.record(name, cells, const=True)
    lists = [[Elem(z3.simplify(offs[i] + j)) for j in range(L)] for i, L in enumerate(lens)]
    return this, lists, offs


def offsets_values(model, offs):
    return [model.eval(o, model_completion=True).as_signed_long() for o in offs]


def tolist_elem(model, v):
    if isinstance(v, list):
        return [tolist_elem(model, x) for x in v]
    if z3.is_true(model.eval(v.none, model_completion=True)):
        return None
    return model.eval(v.val, model_completion=True).as_signed_long()


def inner_lists(lc):
    """replay content for the deeper-axis cases: content element k is the list [100k, 100k+1, ...] of length k % 3 (lengths differ from
    element to element, so that a misaligned content shows)"""
    vals, offs, inner = [], [0], []
    for k in range(lc):
        row = [100 * k + j for j in range(k % 3)]
        inner.append(row)
        vals += row
        offs.append(len(vals))
    return 'i64 %s listoffset64 %s ' % (fullnative.ints(vals), fullnative.ints(offs)), inner


def akrun_check(program, expected, what):
    kind, got = fullnative.akrun(program)
    payload = dict(program=program, native=[kind, got], expected=expected)
    if kind != 'OK':
        return True, '%s: native library %s %s (expected %s)' % (what, kind, str(got)[:200], expected), payload
    if got != expected:
        return True, '%s: native library returns %s, list semantics give %s' % (what, got, expected), payload
    return False, 'native library agrees (%s)' % (got,), payload


# ------------------------------------------------------------------------------------------------ C09: rpad / rpad_and_clip
@guard
def h_rpad(cls, dims, target, clip, deep):
    """rpad / rpad_and_clip of a list node: at the list level every list becomes max(len, target) long (exactly target with clip) by appending
    None, nothing else changes; below it the same list structure wraps the padded content"""
    meth = 'rpad_and_clip' if clip else 'rpad'
    lens0 = node_lens(cls, dims)
    nc = NodeCtx(['LOA', 'LA', 'RA', 'IDX', 'CNT', 'UTL', 'KD', 'IA', 'IDS'], [], unwind=max(8, sum(lens0) + (target + 1) * (len(lens0) + 1) + 4))
    F = nc.derived_stub('13rpad_and_clipElll' if clip else '4rpadElll', meth)
    this, lists, starts, offs, short = list_node(nc, cls, dims)
    fn = '_ZNK7awkward%s%d%sElll' % (short, len(meth), meth)
    nc.m.record('ret', {})
    axis = 2 if deep else 1
    out = nc.m.call(fn, [Ptr('ret', 0), this, BV(target), BV(axis), BV(0)])
    obls = [('%s does not raise' % meth, out.raised)]
    if deep:
        want = [[Elem(F(e.val)) for e in lst] for lst in lists]
        calls = [(pc, a) for pc, nm, a in out.trace if nm == meth]
        obls.append(('the content is asked', z3.Not(z3.Or([pc for pc, _ in calls] + [z3.BoolVal(False)]))))
        for pc, a in calls:
            obls.append(('the content receives (target, axis, depth + 1)', z3.And(pc, z3.Or(a[0] != target, a[1] != axis, a[2] != 1))))
    else:
        want = [py_pad(lst, target, clip, NONE) for lst in lists]
    for g, res in nodeh.decode_cases(nc, out.mem, nc.m.cell('ret', 0)):
        if res is None:
            obls.append(('a result is returned', z3.And(g, z3.Not(out.raised))))
        else:
            obls += [(nm, z3.And(g, c)) for nm, c in nodeh.compare_value(res, want)]

    def replay(model, ent):
        lc = model.eval(nc.lencontent, model_completion=True).as_signed_long()
        if lc > 200:
            return False, 'content too long to replay (%d)' % lc, {}
        head, inp = node_program(nc, model, lc)
        if deep:
            # same node over a content of lists: replace the leaf "i64 ..." by lists of differing lengths
            ntoks = head.split()
            cnt = int(ntoks[1])
            h2, inner = inner_lists(cnt)
            head = h2 + ' '.join(ntoks[2 + cnt:]) + ' '
            exp = [[py_pad(inner[x], target, clip, None) for x in lst] for lst in inp]
        else:
            exp = [py_pad(lst, target, clip, None) for lst in inp]
        prog = head + '%s %d %d' % ('rpadclip' if clip else 'rpad', target, axis)
        return akrun_check(prog, exp, '%s %s::%s(%d, axis=%d)' % (cls, inp, meth, target, axis))
    tw = [('non-zero offset origin', offs[0] > 0)] if cls != 'RegularArray' and lens0 else []
    return mdischarge(nc.m, '%s::%s shape=%s target=%d axis=%d' % (cls, meth, ','.join(map(str, dims)), target, axis), obls, tw, replay=replay,
                      prefer=[nc.lencontent <= 24] + [o <= 20 for o in offs],
                      extra=dict(bounds='shape %s and target %d concrete (case split), origins and content length symbolic' % (dims, target)))


def jobs_c09(tier):
    js = []
    shapes = [(0,), (2,), (0, 3), (2, 0, 1)] if tier == 'quick' else [l for n in (1, 2, 3) for l in itertools.product(range(4), repeat=n)]
    regs = [(2, 2), (0, 2), (3, 1)] if tier == 'quick' else [(s_, l_) for s_ in range(4) for l_ in range(3)]
    targets = (0, 1, 3) if tier == 'quick' else (0, 1, 2, 3, 4)
    for cls in ('ListOffsetArray64', 'ListArray64', 'RegularArray'):
        for dims in (regs if cls == 'RegularArray' else shapes):
            for t in targets:
                for clip in (False, True):
                    js.append((h_rpad, (cls, dims, t, clip, False), 1800))
            js.append((h_rpad, (cls, dims, 2, True, True), 1800))
            js.append((h_rpad, (cls, dims, 2, False, True), 1800))
    ax0 = [('ListOffsetArray64', (2, 0, 1)), ('ListArray64', (1, 2)), ('RegularArray', (2, 2)), ('UnmaskedArray', (3,)), ('IndexedOptionArray64', (0, 1, 0))]
    if tier != 'quick':
        ax0 += [('ListOffsetArray64', (0,)), ('RegularArray', (0, 3)), ('UnmaskedArray', (0,)), ('UnmaskedArray', (1,)), ('IndexedOptionArray64', (1, 1)), ('IndexedOptionArray64', (0, 0, 0, 0))]
    for cls, dims in ax0:
        for t in ((1, 5) if tier == 'quick' else (0, 1, 2, 3, 5)):
            for clip in (False, True):
                js.append((h_rpad_axis0, (cls, dims, t, clip), 1800))
    return js


# ------------------------------------------------------------------------------------------------ C05: num
def build_regular(nc, size, length, name='node'):
    fo, sz, al, fields = nc.layout_of('RA', '_ZNK7awkward12RegularArray6lengthEv')
    # class invariant (constructor): length = len(content) / size (floored) for size > 0, the declared zeros_length for size 0
    nc.m.assume(nc.lencontent >= size * length)
    if size > 0:
        nc.m.assume(nc.lencontent < size * length + size)
    cells = nc.content_header(name, nc.vptr_of('N7awkward12RegularArrayE', 'RA'))
    cells.update({fo[1]: (nc.content0, 8), fo[1] + 8: (NULL, 8), fo[2]: (BV(size), 8), fo[3]: (BV(length), 8)})
    this = nc.m.record(name, cells, const=True)
    lists = [[Elem(BV(i * size + j)) for j in range(size)] for i in range(length)]
    return this, lists


NUM_KERNELS = ['awkward_ListArray_num', 'awkward_RegularArray_num', 'awkward_ListOffsetArray_compact_offsets', 'awkward_ListArray_compact_offsets', 'awkward_new_Identities']


@guard
def h_num(cls, dims, deep):
    """num(axis) of a list node: axis 1 -> the list lengths (a NumpyArray of int64); deeper axis -> same list structure around content.num(axis, depth + 1)"""
    lens0 = node_lens(cls, dims)
    nc = NodeCtx(['LOA', 'LA', 'RA', 'NA', 'IDX', 'CNT', 'UTL', 'KD', 'IDS'], [], unwind=max(8, sum(lens0) + len(lens0) + 6))
    F = nc.derived_stub('3numEll', 'num')
    this, lists, starts, offs, short = list_node(nc, cls, dims)
    nc.m.record('ret', {})
    axis = 2 if deep else 1
    out = nc.m.call('_ZNK7awkward%s3numEll' % short, [Ptr('ret', 0), this, BV(axis), BV(0)])
    obls = [('num does not raise', out.raised)]
    if deep:
        want = [[Elem(F(e.val)) for e in lst] for lst in lists]
        calls = [(pc, a) for pc, nm, a in out.trace if nm == 'num']
        obls.append(('the content is asked', z3.Not(z3.Or([pc for pc, _ in calls] + [z3.BoolVal(False)]))))
        for pc, a in calls:
            obls.append(('the content receives (axis, depth + 1)', z3.And(pc, z3.Or(a[0] != axis, a[1] != 1))))
    else:
        want = [Elem(BV(len(lst))) for lst in lists]
    for g, res in nodeh.decode_cases(nc, out.mem, nc.m.cell('ret', 0)):
        if res is None:
            obls.append(('a result is returned', z3.And(g, z3.Not(out.raised))))
        else:
            obls += [(nm, z3.And(g, c)) for nm, c in nodeh.compare_value(res, want)]

    def replay(model, ent):
        lc = model.eval(nc.lencontent, model_completion=True).as_signed_long()
        if lc > 200:
            return False, 'content too long to replay (%d)' % lc, dict()
        head, inp = node_program(nc, model, lc)
        if deep:
            ntoks = head.split()
            cnt = int(ntoks[1])
            h2, inner = inner_lists(cnt)
            head = h2 + ' '.join(ntoks[2 + cnt:]) + ' '
            exp = [[len(inner[x]) for x in lst] for lst in inp]
        else:
            exp = [len(lst) for lst in inp]
        return akrun_check(head + 'num %d' % axis, exp, '%s %s::num(axis=%d)' % (cls, inp, axis))
    return mdischarge(nc.m, '%s::num shape=%s axis=%d' % (cls, ','.join(map(str, dims)), axis), obls, [], replay=replay,
                      prefer=[nc.lencontent <= 24] + [o <= 20 for o in offs],
                      extra=dict(bounds='shape %s concrete (case split), origins and content length symbolic' % (dims,)))


@guard
def h_localindex(cls, dims, deep):
    """local_index(axis) of a list node: 0..len-1 inside every list at the list level; below it the same structure around content.localindex"""
    lens0 = node_lens(cls, dims)
    nc = NodeCtx(['LOA', 'LA', 'RA', 'NA', 'IDX', 'CNT', 'UTL', 'KD', 'IDS'], [], unwind=max(8, sum(lens0) + len(lens0) + 6))
    F = nc.derived_stub('10localindexEll', 'localindex')
    this, lists, starts, offs, short = list_node(nc, cls, dims)
    nc.m.record('ret', {})
    axis = 2 if deep else 1
    out = nc.m.call('_ZNK7awkward%s10localindexEll' % short, [Ptr('ret', 0), this, BV(axis), BV(0)])
    obls = [('localindex does not raise', out.raised)]
    if deep:
        want = [[Elem(F(e.val)) for e in lst] for lst in lists]
        calls = [(pc, a) for pc, nm, a in out.trace if nm == 'localindex']
        obls.append(('the content is asked', z3.Not(z3.Or([pc for pc, _ in calls] + [z3.BoolVal(False)]))))
        for pc, a in calls:
            obls.append(('the content receives (axis, depth + 1)', z3.And(pc, z3.Or(a[0] != axis, a[1] != 1))))
    else:
        want = [[Elem(BV(j)) for j in range(len(lst))] for lst in lists]
    for g, res in nodeh.decode_cases(nc, out.mem, nc.m.cell('ret', 0)):
        if res is None:
            obls.append(('a result is returned', z3.And(g, z3.Not(out.raised))))
        else:
            obls += [(nm, z3.And(g, c)) for nm, c in nodeh.compare_value(res, want)]

    def replay(model, ent):
        lc = model.eval(nc.lencontent, model_completion=True).as_signed_long()
        if lc > 200:
            return False, 'content too long to replay (%d)' % lc, dict()
        head, inp = node_program(nc, model, lc)
        if deep:
            ntoks = head.split()
            cnt = int(ntoks[1])
            h2, inner = inner_lists(cnt)
            head = h2 + ' '.join(ntoks[2 + cnt:]) + ' '
            exp = [[list(range(len(inner[x]))) for x in lst] for lst in inp]
        else:
            exp = [list(range(len(lst))) for lst in inp]
        return akrun_check(head + 'localindex %d' % axis, exp, '%s %s::localindex(axis=%d)' % (cls, inp, axis))
    return mdischarge(nc.m, '%s::localindex shape=%s axis=%d' % (cls, ','.join(map(str, dims)), axis), obls, [], replay=replay,
                      prefer=[nc.lencontent <= 24] + [o <= 20 for o in offs],
                      extra=dict(bounds='shape %s concrete (case split), origins and content length symbolic' % (dims,)))


def jobs_c05(tier):
    js = []
    shapes = [(0,), (2,), (0, 3), (2, 0, 1)] if tier == 'quick' else [l for n in (1, 2, 3) for l in itertools.product(range(4), repeat=n)]
    regs = [(0, 3), (2, 2), (1, 0), (3, 1)] if tier == 'quick' else [(s_, l_) for s_ in range(4) for l_ in range(4)]
    for cls in ('ListOffsetArray64', 'ListArray64', 'RegularArray'):
        for dims in (regs if cls == 'RegularArray' else shapes):
            for deep in (False, True):
                js.append((h_num, (cls, dims, deep), 1800))
                js.append((h_localindex, (cls, dims, deep), 1800))
    pats = [(0,), (1,), (0, 1, 0), (1, 0, 0), (0, 0, 1, 0)] if tier == 'quick' else [p for n in (1, 2, 3, 4) for p in itertools.product((0, 1), repeat=n)]
    for p in pats:
        for deep in (False, True):
            js.append((h_option_flatten, (p, deep), 1800))
            js.append((h_option_flatten, (p, deep, 'ByteMaskedArray', bool(sum(p) % 2)), 1800))
            if not any(p):
                js.append((h_option_flatten, (p, deep, 'ByteMaskedArray', True), 1800))
                js.append((h_option_flatten, (p, deep, 'UnmaskedArray'), 1800))
    return js


# ------------------------------------------------------------------------------------------------ C05: flatten through an option node
def build_option64(nc, pattern, name='node', option=True):
    """IndexedOptionArray64 (or IndexedArray64) over the opaque content; pattern: tuple of booleans, True = missing (any negative index)"""
    n = len(pattern)
    cls = 'N7awkward14IndexedArrayOfIlLb%dEEE' % (1 if option else 0)
    fo, sz, al, fields = nc.layout_of('IA', '_ZNK7awkward14IndexedArrayOfIlLb%dEE6lengthEv' % (1 if option else 0))
    data = nc.m.array(name + '_index', ('i', 64), n, const=True)
    a0 = z3.Array(name + '_index', z3.BitVecSort(64), z3.BitVecSort(64))
    idx = [z3.Select(a0, BV(i)) for i in range(n)]
    for i, miss in enumerate(pattern):
        nc.m.assume(idx[i] < 0 if miss else z3.And(idx[i] >= 0, idx[i] < nc.lencontent))
    cells = nc.content_header(name, nc.vptr_of(cls, 'IA'))
    nc.index_cells(cells, fo[1], data, BV(0), BV(n))
    cells.update({fo[2]: (nc.content0, 8), fo[2] + 8: (NULL, 8)})
    this = nc.m.record(name, cells, const=True)
    return this, idx


def flatten_stub(nc, deep):
    """Content::offsets_and_flattened on an opaque content.  At the content's own list level (not deep): element k (atom a) is a list of
    LEN(a) <= 2 items ITEM(a, 0..): returns offsets (zero-based running sum) and the flattened content.  Deeper: empty offsets and a
    content of the same length whose element k is FLAT(a) (the documented convention for 'flattened below this level')."""
    LEN = z3.Function('LEN', z3.BitVecSort(64), z3.BitVecSort(64))
    ITEM = z3.Function('ITEM', z3.BitVecSort(64), z3.BitVecSort(64), z3.BitVecSort(64))
    FLAT = z3.Function('FLAT', z3.BitVecSort(64), z3.BitVecSort(64))

    def stub(eng, fr, ins, st, name, argv):
        sret, selfp, axis, depth = argv
        nm, info = nc.content_info(selfp, st, eng)
        st.trace = st.trace + ((st.pc, 'offsets_and_flattened', (axis, depth)),)
        rec = st.mem.o[sret.obj]
        k = z3.BitVec('k!', 64)
        if deep:
            offs_terms = []
            flat = nc.fresh_content(eng, st, info['length'], z3.Lambda([k], FLAT(z3.Select(info['atoms'], k))), derived='flat')
        else:
            try:
                L = nodeh.concrete(info['length'], 'length of the content asked to flatten')
            except Unsupported:
                # the caller handed over a content whose length the case split does not determine (e.g. its whole content instead of the entries
                # it shows): that is already the finding - reported as an obligation of its own instead of ending the harness
                eng.add_obl('handed-content', st, z3.BoolVal(True), 'the content handed to flatten has a length determined by the entries of the node (it is %s)' % str(z3.simplify(info['length']))[:60], eng.where(fr, ins))
                L = 0
            atoms = [z3.simplify(z3.Select(info['atoms'], BV(k_))) for k_ in range(L)]
            offs_terms = [BV(0)]
            for a in atoms:
                nc.m.s.add(LEN(a) >= 0, LEN(a) <= 2)
                offs_terms.append(z3.simplify(offs_terms[-1] + LEN(a)))
            body = BV(-7)
            for j in reversed(range(L)):
                body = z3.If(k < offs_terms[j + 1], ITEM(atoms[j], k - offs_terms[j]), body)
            flat = nc.fresh_content(eng, st, offs_terms[-1], z3.Lambda([k], body), derived='flat')
        arr = z3.K(z3.BitVecSort(64), BV(0))
        for i, t in enumerate(offs_terms):
            arr = z3.Store(arr, BV(i), t)
        buf = eng.new_array(st.mem, eng.fresh_name('heap'), ('i', 64), BV(max(1, len(offs_terms))), arr=arr, tag='heap')
        cells = {}
        nc.index_cells(cells, sret.off, buf, BV(0), BV(len(offs_terms)))
        rec.cells.update(cells)
        rec.cells[sret.off + 56] = (flat, 8)          # std::pair<Index64, ContentPtr>: IndexOf<int64_t> is 56 bytes
        rec.cells[sret.off + 64] = (NULL, 8)
        return None
    nc.m.eng.stubs['vf$slot%d' % nc.slot('21offsets_and_flattenedEll')] = stub
    return LEN, ITEM, FLAT


@guard
def h_option_flatten(pattern, deep, cls='IndexedOptionArray64', variant=True):
    """offsets_and_flattened of an option-type node (IndexedOptionArray64; ByteMaskedArray of either polarity, whose content may be longer
    than the mask; UnmaskedArray): flattening through an option node - a missing list contributes nothing (an empty list in the offsets),
    present lists come in order, nothing beyond the entries of the node is included; below the list level the option node is rebuilt around
    the flattened content"""
    pattern = tuple(bool(x) for x in pattern)
    n = len(pattern)
    nc = NodeCtx(['IA', 'BMA', 'UMA', 'IDX', 'CNT', 'UTL', 'KD', 'IDS', 'NA'], [], unwind=max(8, 3 * n + 6))
    LEN, ITEM, FLAT = flatten_stub(nc, deep)
    mk = None
    if cls == 'IndexedOptionArray64':
        this, idx = build_option64(nc, pattern)
        sym = '_ZNK7awkward14IndexedArrayOfIlLb1EE21offsets_and_flattenedEll'
    elif cls == 'ByteMaskedArray':
        this, mk = build_bytemasked(nc, pattern, variant)
        idx = [BV(i) for i in range(n)]
        sym = '_ZNK7awkward15ByteMaskedArray21offsets_and_flattenedEll'
    else:
        if any(pattern):
            raise Unsupported('an UnmaskedArray has no missing entries')
        this, _vals = build_unmasked(nc, n)
        idx = [BV(i) for i in range(n)]
        sym = '_ZNK7awkward13UnmaskedArray21offsets_and_flattenedEll'
    nc.m.record('ret', {})
    out = nc.m.call(sym, [Ptr('ret', 0), this, BV(2 if deep else 1), BV(0)])
    def replay(model, ent):
        iv = [model.eval(x, model_completion=True).as_signed_long() for x in idx]
        if cls != 'IndexedOptionArray64':
            iv = [(-1 if pattern[i] else i) for i in range(n)]
        lc = max([model.eval(nc.lencontent, model_completion=True).as_signed_long()] + [v + 1 for v in iv])
        if lc > 60:
            return False, 'content too long to replay', dict(index=iv)
        if cls == 'ByteMaskedArray':
            node = 'bytemask %s %d ' % (fullnative.ints([model.eval(x, model_completion=True).as_signed_long() for x in mk]), 1 if variant else 0)
        elif cls == 'UnmaskedArray':
            node = 'unmasked '
        else:
            node = 'option64 %s ' % fullnative.ints(iv)
        head, inner = inner_lists(lc)
        if deep:
            vals, o2, inner2 = [], [0], []
            for k in range(lc):          # content element k: a list of (k % 2 + 1) lists
                rows = [[1000 * k + 10 * r + c for c in range((k + r) % 3)] for r in range(k % 2 + 1)]
                inner2.append(rows)
            flat1 = [r for rows in inner2 for r in rows]
            vals = [x for r in flat1 for x in r]
            oi, acc = [0], 0
            for r in flat1:
                acc += len(r); oi.append(acc)
            oo, acc = [0], 0
            for rows in inner2:
                acc += len(rows); oo.append(acc)
            head = 'i64 %s listoffset64 %s listoffset64 %s ' % (fullnative.ints(vals), fullnative.ints(oi), fullnative.ints(oo))
            exp = [None if v < 0 else [x for r in inner2[v] for x in r] for v in iv]
            prog = head + node + 'flatten 2'
        else:
            exp = [x for v in iv if v >= 0 for x in inner[v]]
            prog = head + node + 'flatten 1'
        return akrun_check(prog, exp, '%s(valid entries -> content %s; content of %d lists)::flatten(axis=%d)' % (cls, iv, lc, 2 if deep else 1))
    obls = [('flatten does not raise', out.raised)]
    try:
        offs, _ = nc.index_terms(out.mem, Ptr('ret', 0), 'returned offsets')
        res = decode(nc, out.mem, nc.m.cell('ret', 56))
    except (KeyError, Unsupported, AttributeError) as err:
        # nothing readable where the answer should be: fine when every path raised (reported above), inconclusive otherwise
        return mdischarge(nc.m, '%s::offsets_and_flattened pattern=%s %s' % (cls, ''.join('N' if p else 'v' for p in pattern), 'below' if deep else 'at list level'),
                          obls + [('an answer that can be read back (%s)' % str(err)[:60], z3.Not(out.raised))], [], replay=replay, prefer=[nc.lencontent <= 6] + [x >= -2 for x in idx if not isinstance(x, int)])
    if deep:
        obls.append(('no offsets are returned below the list level', z3.BoolVal(len(offs) != 0)))
        obls += compare(value(res), [NONE if miss else Elem(FLAT(idx[i])) for i, miss in enumerate(pattern)])
    else:
        want = [BV(0)]
        for i, miss in enumerate(pattern):
            want.append(want[-1] if miss else z3.simplify(want[-1] + LEN(idx[i])))
        if len(offs) != len(want):
            obls.append(('offsets have one entry per list plus one (%d, not %d)' % (len(want), len(offs)), z3.BoolVal(True)))
        else:
            for i, (a, b) in enumerate(zip(offs, want)):
                obls.append(('offsets[%d]: a missing list is an empty list, a present one keeps its length' % i, a != b))
        if res['cls'] != 'opaque':
            raise Unsupported('flattened content is not the content handed back by the inner flatten')
        j = z3.BitVec('j!pos', 64)
        body = BV(-7)
        for i in reversed(range(n)):
            if not pattern[i]:
                body = z3.If(j < want[i + 1], ITEM(idx[i], j - want[i]), body)
        obls.append(('the flattened content has the summed length', res['length'] != want[-1]))
        obls.append(('flattened item j is item (j - start) of the list that covers j', z3.And(j >= 0, j < want[-1], z3.Select(res['atoms'], j) != body)))

    return mdischarge(nc.m, '%s::offsets_and_flattened pattern=%s %s%s' % (cls, ''.join('N' if p else 'v' for p in pattern), 'below' if deep else 'at list level', '' if cls != 'ByteMaskedArray' else ' valid_when=%s' % variant), obls,
                      ([('index is not the identity', z3.Or([idx[i] != i for i in range(n) if not pattern[i]] + [z3.BoolVal(False)]))] if not all(pattern) and cls == 'IndexedOptionArray64' else []) + ([('a content longer than the node', nc.lencontent > n)] if cls == 'ByteMaskedArray' else []),
                      replay=replay, prefer=[nc.lencontent <= 6] + [x >= -2 for x in idx],
                      extra=dict(bounds='%d entries, missing pattern concrete (case split), index values symbolic, inner list lengths <= 2 (uninterpreted)' % n))


def widen(jobs, tier):
    """the same harnesses over the 32-bit and unsigned 32-bit specialisations of the list classes (every job over both narrower widths in the thorough tier, over one of them - alternating - in
    the quick tier): the template branches that differ per index width are C++ code of their own"""
    extra = []
    for k, (fn, args, lim) in enumerate(jobs):
        if args and isinstance(args[0], str) and args[0] in ('ListOffsetArray64', 'ListArray64') and fn.__name__ not in WIDEN_SKIP:
            for w in ('32', 'U32'):
                if tier == 'quick' and (k + (w == 'U32')) % 2:
                    continue            # quick: every harness over one of the two narrower widths (alternating), thorough: both
                extra.append((fn, (args[0][:-2] + w,) + tuple(args[1:]), lim))
    return jobs + extra


WIDEN_SKIP = set()


# properties whose whole node-method job list costs about a minute on 16 cores: the quick tier runs the thorough list (shapes and classes the
# reduced quick lists left out were exactly where seeded changes slipped through: C10_G, C14_H, C06_H)
FULL_IN_QUICK = ('C04', 'C07', 'C08', 'C10', 'C17')


def jobs_for(prop, tier):
    if prop in FULL_IN_QUICK:
        tier = 'thorough'
    return widen(_jobs_for(prop, tier), tier)


def _jobs_for(prop, tier):
    if prop == 'C01':
        return jobs_c01(tier) + jobs_carry(tier) + jobs_numpy_getitem(tier) + jobs_option_getitem(tier) + jobs_ellipsis(tier) + jobs_missing(tier) + jobs_missing_jagged(tier) + jobs_advanced(tier) + jobs_getitem_entry(tier) + jobs_union_getitem_advanced(tier) + jobs_union_ops(tier) + jobs_regular_getitem_jagged(tier) + jobs_list_asslice(tier)
    if prop == 'C05':
        return jobs_c05(tier) + [j for j in jobs_option_below(tier) if j[1][3] in ('num', 'localindex')] + jobs_flatten(tier) + jobs_axis0(tier, 'localindex') + jobs_record_below(tier, ('num', 'localindex')) + jobs_axis_through_record(tier, ('num', 'localindex')) + [(h_union_flatten, (), 1800), (h_union_flatten_mixed, (False,), 1800), (h_union_flatten_mixed, (True,), 1800)]
    if prop == 'C09':
        return jobs_c09(tier) + [j for j in jobs_option_below(tier) if j[1][3] in ('rpad', 'rpad_and_clip')] + jobs_simplify(tier) + jobs_fillna(tier) + jobs_bytemask(tier) + jobs_record_below(tier, ('rpad', 'rpad_and_clip')) + jobs_axis_through_record(tier, ('rpad', 'rpad_and_clip')) + [j for j in jobs_c02(tier) if j[1][0] in ('IndexedOptionArray64', 'ByteMaskedArray', 'BitMaskedArray', 'UnmaskedArray')]
    if prop == 'C11':
        return jobs_simplify(tier) + jobs_validity_params(tier) + jobs_list_validity(tier) + jobs_window_validity(tier) + jobs_indexed_is_unique(tier) + jobs_missing_jagged(tier)
    if prop == 'C07':
        return [j for j in jobs_option_below(tier) if j[1][3] == 'combinations'] + jobs_combinations(tier) + jobs_axis0(tier, 'combinations') + jobs_record_below(tier, ('combinations',))
    if prop == 'C03':
        return jobs_c03(tier) + jobs_option_reduce(tier) + jobs_axis(tier, ('reduce',)) + jobs_reduce_nonlocal(tier) + jobs_unmasked_passthrough(('reduce_next',)) + jobs_record_reduce(tier)
    return {'C02': (lambda t: jobs_c02(t) + jobs_numpy_toregular(t) + jobs_regular_getitem_jagged(t) + jobs_list_asslice(t) + jobs_indexed_widths(t) + jobs_indexed_is_unique(t) + jobs_union_same_content(t)), 'C03': jobs_c03, 'C04': (lambda t: jobs_c04(t) + jobs_numpy_toregular(t)), 'C06': (lambda t: jobs_c06(t) + jobs_axis(t, ('sort', 'argsort')) + jobs_numpy_sort(t) + jobs_sort_nonlocal(t) + jobs_option_sort(t) + jobs_option_sort_above(t) + jobs_option_argsort(t) + jobs_string_argsort(t) + jobs_unmasked_passthrough(('sort_next', 'argsort_next'))), 'C08': (lambda t: jobs_c08(t) + jobs_numpy(t) + jobs_numpy_types(t) + jobs_union(t) + jobs_reverse_merge(t) + jobs_record_merge(t) + jobs_list_merge(t) + [j for j in jobs_record_named(t) if j[0] is h_record_mergemany_named] + jobs_merge_union(t) + jobs_union_ops(t) + jobs_union_same_content(t)), 'C17': (lambda t: jobs_c17(t) + jobs_record_keys(t) + jobs_record_key_at(t) + jobs_node_form(t) + jobs_numpy_form(t) + jobs_record_form(t) + jobs_node_type(t) + jobs_union_form(t) + jobs_record_depth(t) + jobs_numpy_type(t)), 'C12': (lambda t: [j for j in jobs_c02(t) if j[1][0] in ('BitMaskedArray', 'ByteMaskedArray')] + jobs_numpy(t) + jobs_numpy_astype(t) + [(h_index_alloc, (), 900)] + [(h_axis0, (L_, 'combinations', n_, True), 900) for L_, n_ in ((1, 2), (2, 3), (1, 3), (0, 2))] + [j for j in jobs_numpy_getitem(t) if j[1][3] == 'array']), 'C10': (lambda t: jobs_c10(t) + [j for j in jobs_record_named(t) if j[0] is h_record_field_key] + jobs_project(t) + [j for j in jobs_option_below(t) if j[1][3] in ('getitem_field', 'getitem_fields')] + jobs_record_setitem(t) + jobs_record_key_at(t)), 'C05': jobs_c05, 'C09': jobs_c09}.get(prop, lambda t: [])(tier)


# ------------------------------------------------------------------------------------------------ C01: getitem_next of list nodes
def opaque_seq(d):
    """opaque content description -> (length term, element function k -> atom term)"""
    if d['cls'] != 'opaque':
        raise Unsupported('expected an opaque content, got %s' % d['cls'])
    return d['length'], (lambda k: z3.Select(d['atoms'], k))


def empty_tail_and_advanced(nc):
    """Slice tail with no items (sealed) and the 'empty advanced' Index64 that Content::getitem starts with"""
    tail = nc.m.record('tail', {0: (NULL, 8), 8: (NULL, 8), 16: (NULL, 8), 24: (BV(1, 8), 1)}, const=True)
    cells = {}
    nc.index_cells(cells, 0, NULL, BV(0), BV(0))
    cells[48] = (BV(1, 8), 1)
    adv = nc.m.record('advanced', cells, const=True)
    return tail, adv


LIST_GETITEM_KERNELS = []


def build_list64(nc, lens, name='node', width='64'):
    """ListArray of the given index width over the opaque content: starts symbolic (any order, gaps, overlaps), stops = starts + the concrete lengths"""
    T, bits, uns = WIDTHS[width]
    n = len(lens)
    fo, sz, al, fields = nc.layout_of('LA', '_ZNK7awkward11ListArrayOfI%sE6lengthEv' % T)
    a0 = z3.Array(name + '_starts', z3.BitVecSort(64), z3.BitVecSort(bits))
    raw = [z3.Select(a0, BV(i)) for i in range(n)]
    starts = [r if bits == 64 else (z3.ZeroExt(64 - bits, r) if uns else z3.SignExt(64 - bits, r)) for r in raw]
    sarr = z3.K(z3.BitVecSort(64), z3.BitVecVal(0, bits))
    top = 2 ** 40 if bits == 64 else (2 ** 31 - 1 if not uns else 2 ** 32 - 1)
    for i, L in enumerate(lens):
        sarr = z3.Store(sarr, BV(i), raw[i] + L)
        nc.m.assume(starts[i] >= 0, starts[i] <= top - L, starts[i] + L <= nc.lencontent)
    d1 = nc.m.array(name + '_starts', ('i', bits), n, const=True)
    d2 = nc.m.array(name + '_stops', ('i', bits), n, const=True, arr=sarr)
    cells = nc.content_header(name, nc.vptr_of('N7awkward11ListArrayOfI%sEE' % T, 'LA'))
    nc.index_cells(cells, fo[1], d1, BV(0), BV(n), mangled_T=T)
    nc.index_cells(cells, fo[2], d2, BV(0), BV(n), mangled_T=T)
    cells.update({fo[3]: (nc.content0, 8), fo[3] + 8: (NULL, 8)})
    this = nc.m.record(name, cells, const=True)
    lists = [[Elem(z3.simplify(starts[i] + j)) for j in range(L)] for i, L in enumerate(lens)]
    return this, lists, starts


def list_node(nc, cls, lens):
    """-> (this, lists, start term of each list, origin terms for `prefer`, short mangled class name)"""
    if cls.startswith('ListOffsetArray'):
        w = cls[len('ListOffsetArray'):]
        this, lists, offs = build_listoffset64(nc, list(lens), width=w)
        nc.node_info = dict(cls=cls, offs=offs, lens=list(lens), width=w)
        return this, lists, offs[:-1], offs, '17ListOffsetArrayOfI%sE' % WIDTHS[w][0]
    if cls.startswith('ListArray'):
        w = cls[len('ListArray'):]
        this, lists, starts = build_list64(nc, list(lens), width=w)
        nc.node_info = dict(cls=cls, starts=starts, lens=list(lens), width=w)
        return this, lists, starts, (starts or [BV(0)]) + [nc.lencontent], '11ListArrayOfI%sE' % WIDTHS[w][0]
    if cls == 'RegularArray':
        size, length = lens
        this, lists = build_regular(nc, size, length)
        nc.node_info = dict(cls=cls, size=size, length=length)
        return this, lists, [BV(i * size) for i in range(length)], [BV(0), nc.lencontent], '12RegularArray'
    raise Unsupported(cls)


def node_lens(cls, lens):
    return [lens[0]] * lens[1] if cls == 'RegularArray' else list(lens)


def node_program(nc, model, lc):
    """akrun program building the replayed node over content [0, 1, ...) and its Python value"""
    info = nc.node_info
    ev = lambda t: model.eval(t, model_completion=True).as_signed_long()
    if info['cls'].startswith('ListOffsetArray'):
        ov = [ev(o) for o in info['offs']]
        if ov[-1] > 5000:
            raise Unsupported('offsets too large to replay')
        return 'i64 %s listoffset%s %s ' % (fullnative.ints(range(max(lc, ov[-1]))), info.get('width', '64'), fullnative.ints(ov)), [list(range(ov[i], ov[i + 1])) for i in range(len(ov) - 1)]
    if info['cls'].startswith('ListArray'):
        sv = [ev(x) for x in info['starts']]
        tv = [a + L for a, L in zip(sv, info['lens'])]
        if max([0] + tv) > 5000:
            raise Unsupported('starts too large to replay')
        return 'i64 %s list%s %d %s %s ' % (fullnative.ints(range(max([lc] + tv))), info.get('width', '64'), len(sv), ' '.join(map(str, sv)), ' '.join(map(str, tv))), [list(range(a, b)) for a, b in zip(sv, tv)]
    size, length = info['size'], info['length']
    lc = max(lc, size * length)
    if size > 0:
        lc = min(lc, size * length + size - 1)
    return 'i64 %s regular %d %d ' % (fullnative.ints(range(lc)), size, length), [list(range(i * size, (i + 1) * size)) for i in range(length)]


@guard
def h_getitem_next_at(cls, dims):
    lens = dims
    """x[:, at]: per list the item at (one negative wrap); an index out of range for any list raises and no data is returned"""
    nc = NodeCtx(['LOA', 'LA', 'RA', 'IDX', 'CNT', 'UTL', 'KD', 'IDS', 'SLC'], [], unwind=max(8, len(lens) + 6))
    this, lists, starts, offs, short = list_node(nc, cls, lens)
    lens = node_lens(cls, lens)
    tail, adv = empty_tail_and_advanced(nc)
    at = nc.m.bv('at')
    sl = nc.m.record('sliceat', {0: (nc.vptr_of('N7awkward7SliceAtE', 'SLC'), 8), 8: (at, 8)}, const=True)
    nc.m.record('ret', {})
    out = nc.m.call('_ZNK7awkward%s12getitem_nextERKNS_7SliceAtERKNS_5SliceERKNS_7IndexOfIlEE' % short, [Ptr('ret', 0), this, sl, tail, adv])
    regs = [z3.If(at < 0, at + L, at) for L in lens]
    inr = z3.And([z3.And(r >= 0, r < L) for r, L in zip(regs, lens)] + [z3.BoolVal(True)])
    if cls == 'RegularArray' and not lens:
        # a regular dimension has its size even when there are no rows: NumPy checks the index against the size (a[:, 4] on shape (0, 2) raises)
        r0 = z3.If(at < 0, at + dims[0], at)
        inr = z3.And(r0 >= 0, r0 < dims[0])
    obls = [('raises exactly when the index is out of range for some list (for a regular dimension: for its size)', z3.simplify(out.raised) != z3.Not(inr))]
    okp = z3.And(inr, z3.Not(out.raised))
    rp = nc.m.cell('ret', 0)
    if rp is not None and any(q.obj is not None for g, q in nodeh.ptr_cases(rp)):
        res = decode(nc, out.mem, rp)
        ln, el = opaque_seq(res)
        obls.append(('one item per list', z3.And(okp, ln != len(lens))))
        for i, L in enumerate(lens):
            obls.append(('item of list %d is element (at wrapped) of that list' % i, z3.And(okp, el(BV(i)) != starts[i] + regs[i])))

    def replay(model, ent):
        A = model.eval(at, model_completion=True).as_signed_long()
        lc = model.eval(nc.lencontent, model_completion=True).as_signed_long()
        if lc > 200:
            return False, 'content too long to replay', {}
        head, inp = node_program(nc, model, lc)
        prog = head + 'getitem 2 range NONE NONE NONE at %d' % A
        try:
            exp = [lst[A] for lst in inp]
        except IndexError:
            exp = None
        if cls == 'RegularArray' and not inp and not (-dims[0] <= A < dims[0]):
            exp = None          # NumPy: the index is checked against the size of the dimension even without rows
        kind, got = fullnative.akrun(prog)
        payload = dict(program=prog, native=[kind, got], expected=exp)
        if exp is None:
            if kind != 'ERR':
                return True, '%s lists %s [:, %d]: index out of range, but the native library returns %s %s' % (cls, inp, A, kind, got), payload
            return False, 'native library raises, as Python does', payload
        if kind != 'OK' or got != exp:
            return True, '%s lists %s [:, %d]: native library %s %s, Python gives %s' % (cls, inp, A, kind, str(got)[:150], exp), payload
        return False, 'native library agrees (%s)' % got, payload
    return mdischarge(nc.m, '%s::getitem_next(SliceAt) shape=%s' % (cls, ','.join(map(str, dims))), obls, [('in range', inr), ('negative in range', z3.And(inr, at < 0))] if lens and min(lens) > 0 else [],
                      replay=replay, prefer=[at >= -6, at <= 6, nc.lencontent <= 24] + [o <= 20 for o in offs],
                      extra=dict(bounds='list lengths %s concrete (case split); index any int64; offsets origin symbolic' % (lens,)))


@guard
def h_getitem_next_range(cls, dims, step, advanced=False):
    lens = dims
    """x[:, start:stop:step]: per list exactly the CPython slice of that list, in order; start / stop any int64 (None included).  With
    `advanced` (a range after an index array, x[rows, start:stop:step, ...]): list i is paired with entry advanced[i] of the index arrays, and
    every item kept from list i must carry that same pairing down to the content (the pairing handed on has one entry per kept item)"""
    from .c18 import slice_sel, KNONE
    nc = NodeCtx(['LOA', 'LA', 'RA', 'IDX', 'CNT', 'UTL', 'KD', 'IDS', 'SLC'], [], unwind=max(10, 2 * sum(lens) + len(lens) + 8))
    this, lists, starts, offs, short = list_node(nc, cls, lens)
    lens = node_lens(cls, lens)
    tail, adv = empty_tail_and_advanced(nc)
    av = []
    if advanced:
        if not lens:
            raise Unsupported('no lists')
        a1 = z3.Array('advdata', z3.BitVecSort(64), z3.BitVecSort(64))
        av = [z3.Select(a1, BV(i)) for i in range(len(lens))]
        for v in av:
            nc.m.assume(v >= 0, v <= 2 ** 20)
        advdata = nc.m.array('advdata', ('i', 64), len(lens), const=True)
        cells_ = {}
        nc.index_cells(cells_, 0, advdata, BV(0), BV(len(lens)))
        adv = nc.m.record('advanced2', cells_, const=True)
    a, b = nc.m.bv('start'), nc.m.bv('stop')
    sl = nc.m.record('slicerange', {0: (nc.vptr_of('N7awkward10SliceRangeE', 'SLC'), 8), 8: (a, 8), 16: (b, 8), 24: (BV(step), 8)}, const=True)
    nc.m.record('ret', {})
    out = nc.m.call('_ZNK7awkward%s12getitem_nextERKNS_10SliceRangeERKNS_5SliceERKNS_7IndexOfIlEE' % short, [Ptr('ret', 0), this, sl, tail, adv])
    obls = [('a range never raises', out.raised)]
    estep = 1 if step == KNONE else step
    p = z3.BitVec('p!pos', 64)
    for g, res in nodeh.decode_cases(nc, out.mem, nc.m.cell('ret', 0)):
        g = z3.And(g, z3.Not(out.raised))
        if res is None:
            obls.append(('a result is returned', g))
            continue
        if res['cls'] == 'listoffset':
            ro = res['offsets']
            spans = [(ro[i], ro[i + 1] - ro[i]) for i in range(len(ro) - 1)]
            extent = ro[-1] if ro else BV(0)
            obls.append(('result offsets do not start below the carried content', z3.And(g, ro[0] < 0) if ro else z3.BoolVal(False)))
        elif res['cls'] == 'regular':
            n = concrete(res['length'], 'length of the regular result', under=g)
            spans = [(res['size'] * i, res['size']) for i in range(n)]
            extent = res['size'] * n
        else:
            raise Unsupported('result of a range slice is a %s' % res['cls'])
        ln, el = opaque_seq(res['content'])
        if len(spans) != len(lens):
            obls.append(('one result list per list (%d, not %d)' % (len(lens), len(spans)), g))
        else:
            for i, L in enumerate(lens):
                first, cnt = slice_sel(BV(L), a, b, estep)
                obls.append(('list %d keeps exactly len(range(*slice.indices(len))) items' % i, z3.And(g, spans[i][1] != cnt)))
                obls.append(('item p of result list %d is element first + p * step of list %d' % (i, i), z3.And(g, p >= 0, p < cnt, el(spans[i][0] + p) != starts[i] + first + p * estep)))
            obls.append(('the result lists lie inside the carried content', z3.And(g, extent > ln)))
            if advanced and len(spans) == len(lens):
                handed = [(pc, t[0]) for pc, nm, t in out.trace if nm == 'getitem_next(null head)' and t and t[0] is not None]
                obls.append(('the content is asked once, with a pairing', z3.And(g, z3.BoolVal(len(handed) != 1))))
                for pc, ap in handed:
                    ao = out.mem.o[ap.obj]
                    dptr, doff, dlen = ao.cells[ap.off + 8][0], ao.cells[ap.off + 32][0], ao.cells[ap.off + 40][0]
                    total = BV(0)
                    for i, L in enumerate(lens):
                        total = total + slice_sel(BV(L), a, b, estep)[1]
                    obls.append(('the pairing handed on has one entry per kept item', z3.And(g, pc, dlen != total)))
                    dcs = [(gg, q) for gg, q in nodeh.ptr_cases(dptr) if q.obj is not None]
                    for i, L in enumerate(lens):
                        first, cnt = slice_sel(BV(L), a, b, estep)
                        for gg, q in dcs:
                            val = z3.Select(out.mem.o[q.obj].arr, z3.simplify(q.off + doff + (spans[i][0] - (spans[0][0] if spans else 0)) + p))
                            obls.append(('every item kept from list %d carries the pairing of list %d' % (i, i), z3.And(g, pc, gg, p >= 0, p < cnt, val != av[i])))

    def replay(model, ent):
        A, B = model.eval(a, model_completion=True).as_signed_long(), model.eval(b, model_completion=True).as_signed_long()
        lc = model.eval(nc.lencontent, model_completion=True).as_signed_long()
        if lc > 200:
            return False, 'content too long to replay', {}
        head, inp = node_program(nc, model, lc)
        tok = lambda v: 'NONE' if v == KNONE else str(v)
        pyv = lambda v: None if v == KNONE else v
        if advanced:
            # the whole pipeline x[rows, start:stop:step, cols] with rows = 0..n-1 (so the pairing is the identity) over elements that are pairs:
            # result[i] = [x[i][q][cols[i]] for q in the range]: a pairing handed on wrongly picks another list's column
            n_ = len(inp)
            ntoks = head.split()
            cnt_ = int(ntoks[1])
            head2 = 'i64 %s regular 2 0 ' % fullnative.ints([10 * (k // 2) + k % 2 for k in range(2 * cnt_)]) + ' '.join(ntoks[2 + cnt_:]) + ' '
            cols = [i % 2 for i in range(n_)]
            prog = head2 + 'getitem 3 array %s range %s %s %s array %s' % (fullnative.ints(range(n_)), tok(A), tok(B), tok(step), fullnative.ints(cols))
            exp = [[10 * e + cols[i] for e in lst[slice(pyv(A), pyv(B), pyv(step))]] for i, lst in enumerate(inp)]
            return akrun_check(prog, exp, '%s lists %s of pairs [rows, %s:%s:%s, cols=%s]' % (cls, inp, tok(A), tok(B), tok(step), cols))
        prog = head + 'getitem 2 range NONE NONE NONE range %s %s %s' % (tok(A), tok(B), tok(step))
        exp = [lst[slice(pyv(A), pyv(B), pyv(step))] for lst in inp]
        return akrun_check(prog, exp, '%s lists %s [:, %s:%s:%s]' % (cls, inp, tok(A), tok(B), tok(step)))
    small = lambda v: z3.Or(v == KNONE, z3.And(v >= -6, v <= 6))
    return mdischarge(nc.m, '%s::getitem_next(SliceRange%s) shape=%s step=%s' % (cls, ', advanced' if advanced else '', ','.join(map(str, dims)), 'None' if step == KNONE else step), obls,
                      [('non-zero offset origin', offs[0] > 0)] if cls != 'RegularArray' else [('negative start', a < 0)], replay=replay, prefer=[small(a), small(b), nc.lencontent <= 24] + [o <= 20 for o in offs],
                      extra=dict(bounds='list lengths %s and step %s concrete (case split); start, stop any int64 incl. None; offsets origin symbolic' % (lens, step)))


@guard
def h_getitem_next_array(cls, dims, nidx, stride=1):
    lens = dims
    """x[:, [i0, i1, ...]] (one integer array, not advanced): per list the items at the wrapped indexes, in index order; any index out of range
    for any list raises.  stride: the index array is itself a strided view (idx[::2], idx[::-1]) of a longer buffer - its entries are every
    stride-th item of that buffer, and the buffer (which belongs to the caller) is not written"""
    nc = NodeCtx(['LOA', 'LA', 'RA', 'IDX', 'CNT', 'UTL', 'KD', 'IDS', 'SLC'], [], unwind=max(10, len(lens) * nidx + nidx + 8))
    this, lists, starts, offs, short = list_node(nc, cls, lens)
    lens = node_lens(cls, lens)
    tail, adv = empty_tail_and_advanced(nc)
    bufcount = abs(stride) * max(nidx - 1, 0) + 1 if nidx else 1
    data = nc.m.array('slicedata', ('i', 64), max(bufcount, nidx), const=True)
    a0 = z3.Array('slicedata', z3.BitVecSort(64), z3.BitVecSort(64))
    first = bufcount - 1 if stride < 0 else 0
    iv = [z3.Select(a0, BV(first + stride * k)) for k in range(nidx)]
    shape = nc.m.record('sliceshape', {0: (BV(nidx), 8)}, const=True)           # std::vector<int64_t> buffers as records (copied cell-wise)
    strides = nc.m.record('slicestrides', {0: (BV(stride), 8)}, const=True)
    cells = {0: (nc.vptr_of('N7awkward12SliceArrayOfIlEE', 'SLC'), 8)}
    nc.index_cells(cells, 8, data, BV(first), BV(nidx))
    cells.update({64: (shape, 8), 72: (Ptr('sliceshape', 8), 8), 80: (Ptr('sliceshape', 8), 8),
                  88: (strides, 8), 96: (Ptr('slicestrides', 8), 8), 104: (Ptr('slicestrides', 8), 8), 112: (BV(0, 8), 1)})
    sl = nc.m.record('slicearray', cells, const=True)
    nc.m.record('ret', {})
    out = nc.m.call('_ZNK7awkward%s12getitem_nextERKNS_12SliceArrayOfIlEERKNS_5SliceERKNS_7IndexOfIlEE' % short, [Ptr('ret', 0), this, sl, tail, adv])
    regs = [[z3.If(v < 0, v + L, v) for v in iv] for L in lens]
    inr = z3.And([z3.And(r >= 0, r < L) for rs, L in zip(regs, lens) for r in rs] + [z3.BoolVal(True)])
    if cls == 'RegularArray' and not lens:
        # a regular dimension has its size even when there are no rows (NumPy semantics)
        inr = z3.And([z3.And(z3.If(v < 0, v + dims[0], v) >= 0, z3.If(v < 0, v + dims[0], v) < dims[0]) for v in iv] + [z3.BoolVal(True)])
    obls = [('raises exactly when some index is out of range for some list', z3.simplify(out.raised) != z3.Not(inr))]
    okp = z3.And(inr, z3.Not(out.raised))
    rp = nc.m.cell('ret', 0)
    if rp is not None and any(q.obj is not None for g, q in nodeh.ptr_cases(rp)):
        res = decode(nc, out.mem, rp)
        got = value(res)
        want = [[Elem(starts[i] + regs[i][k]) for k in range(nidx)] for i in range(len(lens))]
        obls += [(n, z3.And(okp, c)) for n, c in compare(got, want)]

    def replay(model, ent):
        vals = [model.eval(v, model_completion=True).as_signed_long() for v in iv]
        lc = model.eval(nc.lencontent, model_completion=True).as_signed_long()
        if lc > 200:
            return False, 'content too long to replay', {}
        head, inp = node_program(nc, model, lc)
        if stride != 1:
            buf = [model.eval(z3.Select(a0, BV(j)), model_completion=True).as_signed_long() for j in range(bufcount)]
            prog = head + 'getitem 2 range NONE NONE NONE sarray %d %d %d %s' % (nidx, stride, bufcount, ' '.join(map(str, buf)))
        else:
            prog = head + 'getitem 2 range NONE NONE NONE array %s' % fullnative.ints(vals)
        try:
            exp = [[lst[v] for v in vals] for lst in inp]
        except IndexError:
            exp = None
        if cls == 'RegularArray' and not inp and any(not (-dims[0] <= v < dims[0]) for v in vals):
            exp = None          # NumPy: the indexes are checked against the size of the dimension even without rows
        kind, got = fullnative.akrun(prog)
        payload = dict(program=prog, native=[kind, got], expected=exp)
        if exp is None:
            if kind != 'ERR':
                return True, '%s lists %s [:, %s]: an index is out of range, but the native library returns %s %s' % (cls, inp, vals, kind, got), payload
            return False, 'native library raises, as Python does', payload
        if kind != 'OK' or got != exp:
            return True, '%s lists %s [:, %s]: native library %s %s, Python gives %s' % (cls, inp, vals, kind, str(got)[:150], exp), payload
        return False, 'native library agrees (%s)' % got, payload
    return mdischarge(nc.m, '%s::getitem_next(SliceArray64) shape=%s n=%d%s' % (cls, ','.join(map(str, dims)), nidx, '' if stride == 1 else ' stride=%d' % stride), obls, [('all in range', inr)] if lens and min(lens) > 0 else [],
                      replay=replay, prefer=[z3.And(v >= -6, v <= 6) for v in iv] + [nc.lencontent <= 24] + [o <= 20 for o in offs],
                      extra=dict(bounds='list lengths %s and %d index entries (case split); index values any int64; offsets origin symbolic' % (lens, nidx)))


@guard
def h_regular_getitem_jagged(size, length, extra):
    """RegularArray::getitem_next(SliceJagged64) - x[:, [[..], [..]]] where x's lists have a fixed size: the content is asked with one (start,
    stop) pair of the jagged offsets per item of every list, i.e. size * length pairs, and must itself be exactly the size * length items the
    lists are made of - also when the content buffer is longer than that (`extra`: a RegularArray over a longer content is the same array)"""
    nc = NodeCtx(['RA', 'LOA', 'IDX', 'CNT', 'UTL', 'KD', 'IDS', 'SLC'], [], unwind=max(10, 2 * size * length + 10))
    fo, sz, al, fields = nc.layout_of('RA', '_ZNK7awkward12RegularArray6lengthEv')
    assert extra < size
    nc.m.assume(nc.lencontent == size * length + extra)
    cells = nc.content_header('node', nc.vptr_of('N7awkward12RegularArrayE', 'RA'))
    cells.update({fo[1]: (nc.content0, 8), fo[1] + 8: (NULL, 8), fo[2]: (BV(size), 8), fo[3]: (BV(length), 8)})
    this = nc.m.record('node', cells, const=True)
    tail, adv = empty_tail_and_advanced(nc)
    # the jagged slice item: `size` lists, offsets symbolic and non-decreasing from zero
    jo = z3.Array('joffsets', z3.BitVecSort(64), z3.BitVecSort(64))
    offs = [z3.Select(jo, BV(j)) for j in range(size + 1)]
    nc.m.assume(offs[0] == 0)
    for j in range(size):
        nc.m.assume(offs[j] <= offs[j + 1], offs[j + 1] <= 2 ** 20)
    jdata = nc.m.array('joffsets', ('i', 64), size + 1, const=True)
    jc = {0: (nc.vptr_of('N7awkward13SliceJaggedOfIlEE', 'SLC'), 8), 64: (NULL, 8), 72: (NULL, 8)}
    nc.index_cells(jc, 8, jdata, BV(0), BV(size + 1))
    jag = nc.m.record('jagged', jc, const=True)
    seen = []
    J = z3.Function('JAGGED', z3.BitVecSort(64), z3.BitVecSort(64))
    kk = z3.BitVec('k!', 64)

    def s_jagged(eng, fr, ins, st, name, argv):
        sret, selfp, sstarts, sstops, item, tl = argv
        nm, info = nc.content_info(selfp, st, eng)
        a_, b_ = nc.index_terms(st.mem, sstarts, 'slicestarts')[0], nc.index_terms(st.mem, sstops, 'slicestops')[0]
        seen.append(dict(pc=st.pc, info=info, starts=a_, stops=b_))
        nc._ret(st, sret, nc.fresh_content(eng, st, BV(len(a_)), z3.Lambda([kk], J(z3.Select(info['atoms'], kk))), derived='jagged'))
        return None
    nc.m.eng.stubs['vf$slot%d' % nc.slot('7Content19getitem_next_jaggedERKNS_7IndexOfIlEES4_RKSt10shared_ptrINS_9SliceItemEE')] = s_jagged
    nc.m.record('ret', {})
    out = nc.m.call('_ZNK7awkward12RegularArray12getitem_nextERKNS_13SliceJaggedOfIlEERKNS_5SliceERKNS_7IndexOfIlEE', [Ptr('ret', 0), this, jag, tail, adv])
    obls = [('a jagged slice with one list per item does not raise', out.raised), ('the content is asked', z3.Not(z3.Or([ob['pc'] for ob in seen] + [z3.BoolVal(False)])))]
    for ob in seen:
        g, info = ob['pc'], ob['info']
        obls.append(('the content asked is exactly the size * length items of the lists (not the whole buffer)', z3.And(g, info['length'] != size * length)))
        for k in range(size * length):
            obls.append(('item %d of the content asked is item %d of the lists' % (k, k), z3.And(g, z3.Select(info['atoms'], BV(k)) != BV(k))))
        if len(ob['starts']) != size * length or len(ob['stops']) != size * length:
            obls.append(('one (start, stop) pair per item of every list', g))
        else:
            for i in range(length):
                for j in range(size):
                    obls.append(('pair of list %d item %d is the span of slice list %d' % (i, j, j), z3.And(g, z3.Or(ob['starts'][i * size + j] != offs[j], ob['stops'][i * size + j] != offs[j + 1]))))
    for g, res in nodeh.decode_cases(nc, out.mem, nc.m.cell('ret', 0)):
        g = z3.And(g, z3.Not(out.raised))
        if res is None:
            obls.append(('a result is returned', g))
        elif res['cls'] != 'regular':
            obls.append(('the result has lists of fixed size again', g))
        else:
            obls.append(('the result has %d lists of size %d' % (length, size), z3.And(g, z3.Or(res['size'] != size, res['length'] != length))))
            ln, el = opaque_seq(res['content'])
            obls.append(('the result holds one answer per item', z3.And(g, ln != size * length)))
            for k in range(size * length):
                obls.append(('answer %d is what the content answered for item %d' % (k, k), z3.And(g, el(BV(k)) != J(BV(k)))))

    def replay(model, ent):
        ov = [model.eval(x, model_completion=True).as_signed_long() for x in offs]
        if ov[-1] > 40:
            return False, 'slice too long to replay', {}
        # items are lists [10k, 10k+1, 10k+2]; every slice list takes element 0 (as often as its span asks)
        n = size * length + extra
        prog = 'i64 %s listoffset64 %s regular %d %d getitem 2 range NONE NONE NONE jagged %s array %s' % (
            fullnative.ints([10 * (k // 3) + k % 3 for k in range(3 * n)]), fullnative.ints([3 * k for k in range(n + 1)]), size, length if size == 0 else 0,
            fullnative.ints(ov), fullnative.ints([0] * ov[-1]))
        exp = [[[10 * (i * size + j)] * (ov[j + 1] - ov[j]) for j in range(size)] for i in range(length)]
        return akrun_check(prog, exp, 'RegularArray of %d lists of size %d over a content of %d items, [:, jagged %s]' % (length, size, n, ov))
    return mdischarge(nc.m, 'RegularArray::getitem_next(SliceJagged64) size=%d length=%d content longer by %d' % (size, length, extra), obls, [], replay=replay,
                      prefer=[o <= 4 for o in offs], extra=dict(bounds='size, length and surplus content concrete (case split); jagged offsets symbolic'))


def jobs_regular_getitem_jagged(tier):
    q = [(2, 2, 0), (2, 2, 1), (3, 1, 2)]          # the surplus is always shorter than one more list (the constructor's length = len(content) // size)
    if tier != 'quick':
        q += [(2, 1, 1), (1, 1, 0), (3, 2, 2), (3, 2, 1), (2, 3, 1)]
    return [(h_regular_getitem_jagged, a, 1800) for a in q]


@guard
def h_list_asslice(cls, lens):
    """ListOffsetArray::asslice - an array of lists of integers used as a slice (x[[[0, 1], [], [2]]]): the slice item is a jagged one whose
    offsets are the list boundaries counted from the first list's start (zero-based, whatever the origin of the array's own offsets) around
    what the reachable part of the content - exactly the items between the first start and the last stop - gives as a slice item"""
    nc = NodeCtx(['LOA', 'LA', 'RA', 'IDX', 'CNT', 'UTL', 'KD', 'IDS', 'SLC'], [], unwind=max(10, 2 * len(lens) + 10))
    this, lists, starts, offs, short = list_node(nc, cls, lens)
    seen = []

    def s_asslice(eng, fr, ins, st, name, argv):
        sret, selfp = argv
        nm, info = nc.content_info(selfp, st, eng)
        item = eng.new_record(st.mem, eng.fresh_name('sliceitem'), 16, tag='heap')
        st.mem.o[item.obj].cells[item.off] = (Ptr('fakevt', 0), 8)
        seen.append(dict(pc=st.pc, info=info, item=item))
        nc._ret(st, sret, item)
        return None
    nc.m.eng.stubs['vf$slot%d' % nc.slot('7assliceEv')] = s_asslice
    nc.m.record('ret', {})
    out = nc.m.call('_ZNK7awkward%s7assliceEv' % short, [Ptr('ret', 0), this])
    obls = [('asslice does not raise', out.raised), ('the content is asked', z3.Not(z3.Or([ob['pc'] for ob in seen] + [z3.BoolVal(False)])))]
    total = offs[-1] - offs[0]
    p = z3.BitVec('p!pos', 64)
    for ob in seen:
        g, info = ob['pc'], ob['info']
        obls.append(('the content asked is the reachable part: last stop - first start items', z3.And(g, info['length'] != total)))
        obls.append(('item p of the content asked is item first start + p', z3.And(g, p >= 0, p < total, z3.Select(info['atoms'], p) != offs[0] + p)))
    res = out.mem.o['ret'].cells[0][0]
    cs = [(g, q) for g, q in nodeh.ptr_cases(res)]
    for g, q in cs:
        g = z3.And(g, z3.Not(out.raised))
        if q.obj is None:
            obls.append(('a slice item is returned', g))
            continue
        o = out.mem.o[q.obj]
        vp = [qq.obj for gg, qq in nodeh.ptr_cases(o.cells[q.off][0]) if qq.obj is not None]
        if not (vp and isinstance(vp[0], str) and 'SliceJaggedOfIlE' in vp[0]):
            obls.append(('the slice item is a jagged one (%s)' % (vp[:1],), g))
            continue
        ro, rl = nc.index_terms(out.mem, Ptr(q.obj, q.off + 8), 'jagged offsets')
        if rl != len(lens) + 1:
            obls.append(('one offset per list boundary', g))
        else:
            for i in range(rl):
                obls.append(('jagged offset %d is list boundary %d counted from the first start' % (i, i), z3.And(g, ro[i] != offs[i] - offs[0])))
        cp = o.cells[q.off + 64][0]
        answered = [z3.And(ob['pc'], gg) for ob in seen for gg, qq in nodeh.ptr_cases(cp) if qq.obj == ob['item'].obj]
        obls.append(('the jagged item holds what the content answered', z3.And(g, z3.Not(z3.Or(answered + [z3.BoolVal(False)])))))

    def replay(model, ent):
        lc = model.eval(nc.lencontent, model_completion=True).as_signed_long()
        if lc > 200:
            return False, 'content too long to replay', {}
        head, inp = node_program(nc, model, lc)
        # the node's content is [0, 1, 2, ...]: use the values modulo 3 as positions inside target lists of 3 items
        toks = head.split()
        cnt = int(toks[1])
        slicer = 'i64 %s ' % fullnative.ints([v % 3 for v in range(cnt)]) + ' '.join(toks[2 + cnt:]) + ' '
        n = len(inp)
        target = 'i64 %s listoffset64 %s ' % (fullnative.ints([100 * (k // 3) + k % 3 for k in range(3 * n)]), fullnative.ints([3 * k for k in range(n + 1)]))
        prog = target + slicer + 'getitem 1 asslice'
        exp = [[100 * i + v % 3 for v in lst] for i, lst in enumerate(inp)]
        return akrun_check(prog, exp, '%s %s (items modulo 3) used as a slice of %d lists of 3 items' % (cls, inp, n))
    return mdischarge(nc.m, '%s::asslice lens=%s' % (cls, list(lens)), obls, [('non-zero offset origin', offs[0] > 0)], replay=replay,
                      prefer=[nc.lencontent <= 24] + [o_ <= 20 for o_ in offs], extra=dict(bounds='list lengths %s concrete (case split); offsets origin and content length symbolic' % (list(lens),)))


def jobs_list_asslice(tier):
    q = [('ListOffsetArray64', (2, 0, 1)), ('ListOffsetArray64', (1,)), ('ListOffsetArray32', (0, 2))]
    if tier != 'quick':
        q += [('ListOffsetArray64', ()), ('ListOffsetArray64', (0, 0)), ('ListOffsetArrayU32', (1, 2)), ('ListOffsetArray64', (3, 1, 2)), ('ListOffsetArray32', (1,))]
    return [(h_list_asslice, a, 1800) for a in q]


def jobs_c01(tier):
    from .c18 import KNONE
    js = []
    shapes = [(2,), (0, 3), (2, 1, 3)] if tier == 'quick' else [l for n in (1, 2, 3) for l in itertools.product(range(4), repeat=n)]
    steps = (-2, -1, 1, 2) if tier == 'quick' else (-3, -2, -1, 1, 2, 3)     # SliceRange's constructor turns a None step into 1
    regs = [(2, 2), (0, 2), (3, 1)] if tier == 'quick' else [(s_, l_) for s_ in range(4) for l_ in range(3)]
    for cls in ('ListOffsetArray64', 'ListArray64', 'RegularArray'):
        for lens in (regs if cls == 'RegularArray' else shapes):
            js.append((h_getitem_next_at, (cls, lens), 1800))
            for s in steps:
                js.append((h_getitem_next_range, (cls, lens, s), 1800))
            for nidx in (1, 2):
                js.append((h_getitem_next_array, (cls, lens, nidx), 1800))
        # the index array is a strided / reversed view of the caller's buffer
        for lens in ([(2, 2)] if cls == 'RegularArray' else [(2, 1)]):
            for st_ in (2, -1):
                js.append((h_getitem_next_array, (cls, lens, 2, st_), 1800))
        # an empty index array: one empty list per row
        for lens in ([(2, 2)] if cls == 'RegularArray' else [(2, 1)]) if tier == 'quick' else (regs[:6] if cls == 'RegularArray' else shapes[:10]):
            js.append((h_getitem_next_array, (cls, lens, 0), 1800))
    return js


# ------------------------------------------------------------------------------------------------ C03: ListOffsetArray64::reduce_next, local branch
@guard
def h_reduce_local(lens, cls='ListOffsetArray64'):
    """ListOffsetArray64::reduce_next for a reduction below this list level (the 'local' branch, e.g. axis=-1 on lists of numbers): the content
    is handed exactly the elements covered by the lists, with parents[k] = index of the list holding element k and starts[i] = position of
    list i inside what is handed over (this is what argmin/argmax subtract); the results come back one per list"""
    lens = list(lens)
    n, total = len(lens), sum(lens)
    nc = NodeCtx(['LOA', 'LA', 'RA', 'IDX', 'CNT', 'UTL', 'KD', 'IDS', 'NA'], [], unwind=max(10, total + n + 6))
    RED = z3.Function('RED', z3.BitVecSort(64), z3.BitVecSort(64))
    seen = []

    def s_reduce_next(eng, fr, ins, st, name, argv):
        sret, selfp, reducer, negaxis, starts, shifts, parents, outlength, mask, keepdims = argv
        nm, info = nc.content_info(selfp, st, eng)
        seen.append(dict(pc=st.pc, info=info, negaxis=negaxis, starts=nc.index_terms(st.mem, starts, 'starts')[0], parents=nc.index_terms(st.mem, parents, 'parents')[0],
                         nshifts=st.mem.o[shifts.obj].cells[shifts.off + 40][0], outlength=outlength, mask=mask, keepdims=keepdims, reducer=reducer))
        k = z3.BitVec('k!', 64)
        nc._ret(st, sret, nc.fresh_content(eng, st, outlength, z3.Lambda([k], RED(k)), derived='reduced'))
        return None

    def s_branch_depth(eng, fr, ins, st, name, argv):
        return [z3.BitVecVal(0, 8), BV(1)] if False else None
    nc.m.eng.stubs['vf$slot%d' % nc.slot('11reduce_nextERKNS_7ReducerEl')] = s_reduce_next
    # the opaque content is a leaf level: branch_depth() = (false, 1), not an option type
    nc.m.eng.stubs['vf$slot%d' % nc.slot('12branch_depthEv')] = lambda eng, fr, ins, st, name, argv: [z3.BitVecVal(0, 8), BV(1)]
    nc.m.eng.stubs['vf$slot%d' % nc.slot('20dimension_optiontypeEv')] = lambda eng, fr, ins, st, name, argv: z3.BitVecVal(0, 1)
    # the other list classes re-express themselves as a zero-based ListOffsetArray64 first; the claim about what the content receives is the same
    this, lists, starts_, offs, short = list_node(nc, cls, tuple(lens) if cls != 'RegularArray' else (lens[0] if lens else 0, len(lens)))
    flat = [e.val for lst in lists for e in lst]
    # outer arguments as Content::reduce passes them for the outermost list: one group
    p0 = nc.m.array('parents0', ('i', 64), max(1, n), const=True, arr=z3.K(z3.BitVecSort(64), BV(0)))
    s0 = nc.m.array('starts0', ('i', 64), 1, const=True, arr=z3.K(z3.BitVecSort(64), BV(0)))
    cells = {}
    nc.index_cells(cells, 0, p0, BV(0), BV(n))
    parents = nc.m.record('parents', cells, const=True)
    cells = {}
    nc.index_cells(cells, 0, s0, BV(0), BV(1))
    starts = nc.m.record('starts', cells, const=True)
    cells = {}
    nc.index_cells(cells, 0, NULL, BV(0), BV(0))
    shifts = nc.m.record('shifts', cells, const=True)
    reducer = nc.m.record('reducer', {0: (Ptr('fakevt', 0), 8)}, const=True)
    nc.m.record('ret', {})
    # branch_depth() of the opaque content: (false, 1) - a leaf level below this list
    def s_bd(eng, fr, ins, st, name, argv):
        return z3.Concat(BV(1), BV(0, 8)) if False else None
    mask, keep = z3.BitVecVal(0, 1), z3.BitVecVal(0, 1)
    cands = [f for mod_ in nc.m.eng.mods for f in mod_.func_src if f.startswith('_ZNK7awkward%s11reduce_nextERKNS_7ReducerEl' % short)]
    if not cands:
        raise Unsupported('reduce_next of %s not found in the IR' % cls)
    out = nc.m.call(cands[0], [Ptr('ret', 0), this, reducer, BV(1), starts, shifts, parents, BV(1), mask, keep])
    obls = [('reduce_next does not raise', out.raised),
            ('the content is asked (exactly once on every path)', z3.Not(z3.Or([ob['pc'] for ob in seen] + [z3.BoolVal(False)])))]
    for a_, b_ in itertools.combinations(seen, 2):
        obls.append(('the content is asked at most once', z3.And(a_['pc'], b_['pc'])))
    for ob in seen:
        info, g = ob['info'], ob['pc']
        G = lambda c: z3.And(g, c)
        obls.append(('the content handed over has the summed length of the lists', G(info['length'] != total)))
        for k in range(total):
            obls.append(('element %d handed over is element %d of the covered elements (in list order)' % (k, k), G(z3.Select(info['atoms'], BV(k)) != flat[k])))
        want_par = [i for i, L in enumerate(lens) for _ in range(L)]
        if len(ob['parents']) != total:
            obls.append(('one parent per element', g))
        else:
            for k, (a, w) in enumerate(zip(ob['parents'], want_par)):
                obls.append(('parents[%d] is the list holding element %d' % (k, k), G(a != w)))
        if len(ob['starts']) != n:
            obls.append(('one start per list', g))
        else:
            acc = 0
            for i, L in enumerate(lens):
                obls.append(('starts[%d] is where list %d begins inside the content handed over' % (i, i), G(ob['starts'][i] != acc)))
                acc += L
        obls.append(('outlength is the number of lists', G(ob['outlength'] != n)))
        obls.append(('negaxis is passed on unchanged', G(ob['negaxis'] != 1)))
        obls.append(('no shifts are invented', G(ob['nshifts'] != 0)))
    for g, res in nodeh.decode_cases(nc, out.mem, nc.m.cell('ret', 0)):
        if res is None:
            obls.append(('a result is returned', z3.And(g, z3.Not(out.raised))))
        else:
            obls += [(nm, z3.And(g, c)) for nm, c in compare(value(res), [[Elem(RED(BV(i))) for i in range(n)]])]

    def replay(model, ent):
        lc = model.eval(nc.lencontent, model_completion=True).as_signed_long()
        if lc > 200:
            return False, 'content too long to replay', {}
        head, inp = node_program(nc, model, lc)
        exp = [L - 1 if L > 0 else -1 for L in lens]
        r1 = akrun_check(head + 'reduce argmax -1 0 0', exp, 'argmax(axis=-1) of %s %s (content 0, 1, ...)' % (cls, inp))
        if r1[0]:
            return r1
        return akrun_check(head + 'reduce sum -1 0 0', [sum(l) for l in inp], 'sum(axis=-1) of %s %s' % (cls, inp))
    return mdischarge(nc.m, '%s::reduce_next local lens=%s' % (cls, ','.join(map(str, lens))), obls, [('non-zero offset origin', offs[0] > 0)] if cls.startswith('ListOffset') else [], replay=replay,
                      prefer=[o <= 6 for o in offs[:1]] + [nc.lencontent <= 24],
                      extra=dict(bounds='list lengths %s concrete (case split); offsets origin symbolic; one outer group; opaque leaf content' % lens))


def jobs_c03(tier):
    shapes = [(2,), (0, 3), (2, 0, 1)] if tier == 'quick' else [l for n in (1, 2, 3) for l in itertools.product(range(4), repeat=n)]
    js = [(h_reduce_local, (l,), 1800) for l in shapes]
    for cls in ('ListOffsetArray32', 'ListOffsetArrayU32', 'ListArray64', 'ListArray32', 'ListArrayU32'):
        for l in (shapes[-1:] if tier == 'quick' else shapes[:6]):
            js.append((h_reduce_local, (l, cls), 1800))
    for l in ([(2, 2)] if tier == 'quick' else [(2, 2), (1, 1, 1), (3, 3), (0, 0), (3,)]):     # a regular node: equal rows only
        js.append((h_reduce_local, (l, 'RegularArray'), 1800))
    return js


# ------------------------------------------------------------------------------------------------ C09: padding along axis 0
def build_unmasked(nc, n, name='node'):
    fo, sz, al, fields = nc.layout_of('UMA', '_ZNK7awkward13UnmaskedArray6lengthEv')
    nc.m.assume(nc.lencontent == n)
    cells = nc.content_header(name, nc.vptr_of('N7awkward13UnmaskedArrayE', 'UMA'))
    cells.update({fo[1]: (nc.content0, 8), fo[1] + 8: (NULL, 8)})
    return nc.m.record(name, cells, const=True), [Elem(BV(i)) for i in range(n)]


def any_node(nc, cls, dims):
    """-> (this, nested value, short mangled name, replay(model, lc) -> (program head, python value))"""
    if cls == 'RegularArray' or cls.startswith('ListOffsetArray') or cls.startswith('ListArray'):
        this, lists, starts, offs, short = list_node(nc, cls, dims)
        return this, lists, short, (lambda model, lc: node_program(nc, model, lc))
    if cls == 'UnmaskedArray':
        this, vals = build_unmasked(nc, dims[0])
        return this, vals, '13UnmaskedArray', (lambda model, lc: ('i64 %s unmasked ' % fullnative.ints(range(dims[0])), list(range(dims[0]))))
    if cls == 'IndexedOptionArray64':
        pattern = tuple(bool(x) for x in dims)
        this, idx = build_option64(nc, pattern)
        vals = [NONE if miss else Elem(idx[i]) for i, miss in enumerate(pattern)]

        def rp(model, lc):
            iv = [model.eval(x, model_completion=True).as_signed_long() for x in idx]
            lc2 = max([lc] + [v + 1 for v in iv])
            return 'i64 %s option64 %s ' % (fullnative.ints(range(lc2)), fullnative.ints(iv)), [None if v < 0 else v for v in iv]
        return this, vals, '14IndexedArrayOfIlLb1EE', rp
    raise Unsupported(cls)


@guard
def h_rpad_axis0(cls, dims, target, clip):
    """rpad / rpad_and_clip along axis 0 (the node's own entries): max(length, target) entries (exactly target with clip), the original entries
    first and unchanged, None after them"""
    meth = 'rpad_and_clip' if clip else 'rpad'
    nc = NodeCtx(['LOA', 'LA', 'RA', 'IA', 'UMA', 'IDX', 'CNT', 'UTL', 'KD', 'IDS'], [], unwind=max(10, target + 12))
    this, vals, short, rp = any_node(nc, cls, dims)
    fn = '_ZNK7awkward%s%d%sElll' % (short, len(meth), meth)
    nc.m.record('ret', {})
    out = nc.m.call(fn, [Ptr('ret', 0), this, BV(target), BV(0), BV(0)])
    obls = [('%s does not raise' % meth, out.raised)]
    want = py_pad(vals, target, clip, NONE)
    for g, res in nodeh.decode_cases(nc, out.mem, nc.m.cell('ret', 0)):
        if res is None:
            obls.append(('a result is returned', z3.And(g, z3.Not(out.raised))))
        else:
            obls += [(nm, z3.And(g, c)) for nm, c in nodeh.compare_value(res, want)]

    def replay(model, ent):
        lc = model.eval(nc.lencontent, model_completion=True).as_signed_long()
        if lc > 200:
            return False, 'content too long to replay (%d)' % lc, {}
        head, inp = rp(model, lc)
        return akrun_check(head + '%s %d 0' % ('rpadclip' if clip else 'rpad', target), py_pad(inp, target, clip, None), '%s %s::%s(%d, axis=0)' % (cls, inp, meth, target))
    return mdischarge(nc.m, '%s::%s axis=0 shape=%s target=%d' % (cls, meth, ','.join(map(str, dims)), target), obls, [], replay=replay, prefer=[nc.lencontent <= 24],
                      extra=dict(bounds='shape %s and target %d concrete (case split), buffer contents symbolic' % (dims, target)))


# ------------------------------------------------------------------------------------------------ option-type nodes: methods that act below the node
def build_bytemasked(nc, pattern, valid_when, name='node'):
    """ByteMaskedArray over the opaque content: entry i is valid iff (mask[i] != 0) == valid_when; pattern fixes which entries are missing,
    the mask byte values themselves are symbolic (any non-zero byte is 'true')"""
    n = len(pattern)
    fo, sz, al, fields = nc.layout_of('BMA', '_ZNK7awkward15ByteMaskedArray6lengthEv')
    data = nc.m.array(name + '_mask', ('i', 8), n, const=True)
    a0 = z3.Array(name + '_mask', z3.BitVecSort(64), z3.BitVecSort(8))
    mk = [z3.Select(a0, BV(i)) for i in range(n)]
    for i, miss in enumerate(pattern):
        nc.m.assume((mk[i] != 0) == (bool(valid_when) != bool(miss)))
    nc.m.assume(nc.lencontent >= n)
    cells = nc.content_header(name, nc.vptr_of('N7awkward15ByteMaskedArrayE', 'BMA'))
    nc.index_cells(cells, fo[1], data, BV(0), BV(n), mangled_T='a')
    cells.update({fo[2]: (nc.content0, 8), fo[2] + 8: (NULL, 8), fo[3]: (BV(1 if valid_when else 0, 8), 1)})
    this = nc.m.record(name, cells, const=True)
    return this, mk


def build_bitmasked(nc, pattern, valid_when, lsb, name='node', extra=0):
    """extra: further mask bytes beyond the ones the entries need (a padded validity bitmap: the constructor accepts any longer mask)"""
    n = len(pattern)
    nbytes = ((n + 7) // 8 or 1) + extra
    fo, sz, al, fields = nc.layout_of('BIT', '_ZNK7awkward14BitMaskedArray6lengthEv')
    data = nc.m.array(name + '_mask', ('i', 8), nbytes, const=True)
    a0 = z3.Array(name + '_mask', z3.BitVecSort(64), z3.BitVecSort(8))
    for i, miss in enumerate(pattern):
        byte = z3.Select(a0, BV(i // 8))
        bit = (i % 8) if lsb else (7 - i % 8)
        nc.m.assume((z3.Extract(bit, bit, byte) == 1) == (bool(valid_when) != bool(miss)))
    nc.m.assume(nc.lencontent >= n)
    cells = nc.content_header(name, nc.vptr_of('N7awkward14BitMaskedArrayE', 'BIT'))
    nc.index_cells(cells, fo[1], data, BV(0), BV(nbytes), mangled_T='h')
    cells.update({fo[2]: (nc.content0, 8), fo[2] + 8: (NULL, 8), fo[3]: (BV(1 if valid_when else 0, 8), 1), fo[5]: (BV(n), 8), fo[6]: (BV(1 if lsb else 0, 8), 1)})
    this = nc.m.record(name, cells, const=True)
    return this, a0


OPTION_CLASSES = {
    'IndexedOptionArray64': ('14IndexedArrayOfIlLb1EE', 'IA'),
    'IndexedOptionArray32': ('14IndexedArrayOfIiLb1EE', 'IA'),
    'ByteMaskedArray': ('15ByteMaskedArray', 'BMA'),
    'BitMaskedArray': ('14BitMaskedArray', 'BIT'),
    'UnmaskedArray': ('13UnmaskedArray', 'UMA'),
}
BELOW_METHODS = {   # name -> (mangled method with args, slot fragment, extra leading int args)
    'num': ('3numEll', '3numEll', ()),
    'localindex': ('10localindexEll', '10localindexEll', ()),
    'rpad': ('4rpadElll', '4rpadElll', (3,)),
    'rpad_and_clip': ('13rpad_and_clipElll', '13rpad_and_clipElll', (3,)),
    'combinations': ('12combinationsElbRKSt10shared_ptrISt6vectorINSt7__cxx1112basic_stringIcSt11char_traitsIcESaIcEEESaIS8_EEERKSt3mapIS8_S8_St4lessIS8_ESaISt4pairIKS8_S8_EEEll',
                     '12combinationsElb', 'combinations'),
    'getitem_field': ('13getitem_fieldERKNSt7__cxx1112basic_stringIcSt11char_traitsIcESaIcEEE', '13getitem_fieldERKNSt7__cxx1112basic_stringIcSt11char_traitsIcESaIcEEE', 'field'),
    'getitem_fields': ('14getitem_fieldsERKSt6vector', '14getitem_fieldsERKSt6vectorINSt7__cxx1112basic_stringIcSt11char_traitsIcESaIcEEESaIS7_EE', 'fields'),
}


@guard
def h_option_below(cls, pattern, variant, meth):
    """an option-type node asked for num / localindex / rpad / rpad_and_clip at an axis below itself: the valid entries' content is handed the same
    request (same axis, same depth - an option node is not a list level), and the result keeps None exactly at the missing positions, every valid
    position i holding what the content answered for *its* element"""
    pattern = tuple(bool(x) for x in pattern)
    n = len(pattern)
    short, src = OPTION_CLASSES[cls]
    nc = NodeCtx(['IA', 'BMA', 'BIT', 'UMA', 'IDX', 'CNT', 'UTL', 'KD', 'IDS', 'NA'], [], unwind=max(10, 2 * n + 10))
    mm, frag, extra = BELOW_METHODS[meth]
    F = nc.derived_stub(frag, meth)
    if cls in ('IndexedOptionArray64', 'IndexedOptionArray32'):
        this, idx = build_option64(nc, pattern) if cls.endswith('64') else build_indexed(nc, cls, pattern, nc.content0, nc.lencontent, 'node')
        atom = lambda i: idx[i]
        head = lambda model, lc: 'option%s %s ' % (cls[-2:], fullnative.ints([model.eval(x, model_completion=True).as_signed_long() for x in idx]))
        which = lambda model: [model.eval(x, model_completion=True).as_signed_long() for x in idx]
    elif cls == 'ByteMaskedArray':
        this, mk = build_bytemasked(nc, pattern, variant)
        atom = lambda i: BV(i)
        head = lambda model, lc: 'bytemask %s %d ' % (fullnative.ints([model.eval(x, model_completion=True).as_signed_long() for x in mk]), 1 if variant else 0)
        which = lambda model: [(-1 if pattern[i] else i) for i in range(n)]
    elif cls == 'BitMaskedArray':
        vw, lsb = variant
        this, a0 = build_bitmasked(nc, pattern, vw, lsb)
        nbytes = (n + 7) // 8 or 1
        atom = lambda i: BV(i)
        head = lambda model, lc: 'bitmask %s %d %d %d ' % (fullnative.ints([model.eval(z3.Select(a0, BV(k)), model_completion=True).as_long() for k in range(nbytes)]), 1 if vw else 0, n, 1 if lsb else 0)
        which = lambda model: [(-1 if pattern[i] else i) for i in range(n)]
    else:
        if any(pattern):
            raise Unsupported('an UnmaskedArray has no missing entries')
        this, vals = build_unmasked(nc, n)
        atom = lambda i: BV(i)
        head = lambda model, lc: 'unmasked '
        which = lambda model: list(range(n))
    nc.m.record('ret', {})
    if meth == 'combinations':
        rl = nc.m.record('recordlookup', {0: (NULL, 8), 8: (NULL, 8)}, const=True)
        pc_ = {}
        nc.empty_map(pc_, 0, 'noparams')
        pm = nc.m.record('noparams', pc_, const=True)
        args = [BV(2), z3.BitVecVal(0, 1), rl, pm, BV(1), BV(0)]
    elif meth == 'getitem_field':
        kc = {}
        _string_cells(kc, 0, 'key', 'k')
        args = [nc.m.record('key', kc, const=True)]
    elif meth == 'getitem_fields':
        kc = {}
        for i_, k_ in enumerate(('k', 'j')):
            _string_cells(kc, 32 * i_, 'keysbuf', k_)
        nc.m.record('keysbuf', kc, const=True)
        args = [nc.m.record('keysvec', {0: (Ptr('keysbuf', 0), 8), 8: (Ptr('keysbuf', 64), 8), 16: (Ptr('keysbuf', 64), 8)}, const=True)]
    else:
        args = [BV(x) for x in extra] + [BV(1), BV(0)]
    sym = '_ZNK7awkward%s%s' % (short, mm)
    if meth == 'getitem_fields':
        cands = sorted([f for mod_ in nc.m.eng.mods for f in mod_.func_src if f.startswith('_ZNK7awkward%s14getitem_fieldsERKSt6vector' % short)], key=len)
        if not cands:
            raise Unsupported('getitem_fields of %s not found in the IR' % cls)
        sym = cands[0]
    if meth == 'combinations':          # substitution numbers in the mangled name differ between template and plain classes: find it by prefix
        cands = [f for mod_ in nc.m.eng.mods for f in mod_.func_src if f.startswith('_ZNK7awkward%s12combinationsElb' % short)]
        if not cands:
            raise Unsupported('combinations of %s not found in the IR' % cls)
        sym = cands[0]
    out = nc.m.call(sym, [Ptr('ret', 0), this] + args)
    obls = [('%s does not raise' % meth, out.raised)]
    calls = [(pc, a) for pc, nm, a in out.trace if nm == meth]
    obls.append(('the content is asked', z3.Not(z3.Or([pc for pc, _ in calls] + [z3.BoolVal(False)]))))
    for pc, a in calls:
        if meth == 'combinations':
            obls.append(('the content receives the same request (n, replacement, axis, depth)', z3.And(pc, z3.Or(a[0] != 2, a[1] != 0, a[4] != 1, a[5] != 0))))
        elif meth == 'getitem_field':
            obls.append(('the content is asked for the same field name', z3.And(pc, z3.BoolVal(_read_string(out.mem, a[0]) != 'k'))))
        elif meth == 'getitem_fields':
            same = z3.Or([gg for gg, qq in nodeh.ptr_cases(a[0]) if qq.obj == 'keysvec'] + [z3.BoolVal(False)])
            obls.append(('the content is asked for the same field names', z3.And(pc, z3.Not(same))))
        else:
            want_args = list(extra) + [1, 0]
            obls.append(('the content receives the same request (same axis, same depth)', z3.And(pc, z3.Or([x != w for x, w in zip(a, want_args)]))))
    want = [NONE if pattern[i] else Elem(F(atom(i))) for i in range(n)]
    for g, res in nodeh.decode_cases(nc, out.mem, nc.m.cell('ret', 0)):
        if res is None:
            obls.append(('a result is returned', z3.And(g, z3.Not(out.raised))))
        else:
            obls += [(nm, z3.And(g, c)) for nm, c in nodeh.compare_value(res, want)]

    def replay(model, ent):
        iv = which(model)
        lc = max([model.eval(nc.lencontent, model_completion=True).as_signed_long(), n] + [v + 1 for v in iv])
        if lc > 60:
            return False, 'content too long to replay', dict(index=iv)
        h2, inner = inner_lists(lc)
        if meth == 'getitem_field':
            # content: records {j: ..., k: ...}; projecting k through the option node keeps None where it was
            prog = 'i64 %s i64 %s record 2 %d j k ' % (fullnative.ints(range(lc)), fullnative.ints([500 + x for x in range(lc)]), lc) + head(model, lc) + 'getfield k'
            return akrun_check(prog, [None if v < 0 else 500 + v for v in iv], '%s (valid entries -> content %s)::getitem_field' % (cls, iv))
        if meth == 'getitem_fields':
            prog = 'i64 %s i64 %s record 2 %d j k ' % (fullnative.ints(range(lc)), fullnative.ints([500 + x for x in range(lc)]), lc) + head(model, lc) + 'getfields 2 k j'
            return akrun_check(prog, [None if v < 0 else {'k': 500 + v, 'j': v} for v in iv], '%s (valid entries -> content %s)::getitem_fields' % (cls, iv))
        import itertools as _it
        ref = {'combinations': lambda l: [{'0': a_, '1': b_} for a_, b_ in _it.combinations(l, 2)], 'num': lambda l: len(l), 'localindex': lambda l: list(range(len(l))), 'rpad': lambda l: py_pad(l, 3, False, None), 'rpad_and_clip': lambda l: py_pad(l, 3, True, None)}[meth]
        exp = [None if v < 0 else ref(inner[v]) for v in iv]
        op = {'combinations': 'combinations 2 0 1', 'num': 'num 1', 'localindex': 'localindex 1', 'rpad': 'rpad 3 1', 'rpad_and_clip': 'rpadclip 3 1'}[meth]
        return akrun_check(h2 + head(model, lc) + op, exp, '%s (valid entries -> content %s)::%s(axis=1)' % (cls, iv, meth))
    return mdischarge(nc.m, '%s::%s below the node, pattern=%s variant=%s' % (cls, meth, ''.join('N' if p else 'v' for p in pattern), variant), obls, [], replay=replay,
                      prefer=[nc.lencontent <= 8], extra=dict(bounds='%d entries, missing pattern concrete (case split), index / mask byte values symbolic' % n))


def jobs_option_below(tier):
    js = []
    pats = [(0, 1, 0), (1, 0, 0, 1), (0, 0, 0), (1, 1)] if tier == 'quick' else [p for k in (1, 2, 3, 4) for p in itertools.product((0, 1), repeat=k)]
    for meth in BELOW_METHODS:
        for p in pats:
            js.append((h_option_below, ('IndexedOptionArray64', p, None, meth), 1800))
            if tier != 'quick' or p == pats[0]:
                js.append((h_option_below, ('IndexedOptionArray32', p, None, meth), 1800))
            for vw in (True, False):
                js.append((h_option_below, ('ByteMaskedArray', p, vw, meth), 1800))
            for vw, lsb in ((True, True), (False, False)) if tier == 'quick' else itertools.product((True, False), repeat=2):
                js.append((h_option_below, ('BitMaskedArray', p, (vw, lsb), meth), 1800))
        js.append((h_option_below, ('UnmaskedArray', (0, 0, 0), None, meth), 1800))
    return js


# ------------------------------------------------------------------------------------------------ C04: list re-alignment for broadcasting
@guard
def h_broadcast_tooffsets(cls, dims, counts):
    """broadcast_tooffsets64(offsets): re-cutting a list node to the (zero-based) offsets of the deeper argument: lists of equal length align
    element for element, a length-1 regular dimension repeats its element, lists of different lengths at the same position raise"""
    counts = list(counts)
    lens0 = node_lens(cls, dims)
    nc = NodeCtx(['LOA', 'LA', 'RA', 'IDX', 'CNT', 'UTL', 'KD', 'IDS'], [], unwind=max(10, sum(counts) + sum(lens0) + len(counts) + 8))
    this, lists, starts, offs, short = list_node(nc, cls, dims)
    arr = z3.K(z3.BitVecSort(64), BV(0))
    acc, tv = 0, [0]
    for c in counts:
        acc += c; tv.append(acc)
    for i, v in enumerate(tv):
        arr = z3.Store(arr, BV(i), BV(v))
    tdata = nc.m.array('target_offsets', ('i', 64), len(tv), const=True, arr=arr)
    cells = {}
    nc.index_cells(cells, 0, tdata, BV(0), BV(len(tv)))
    tgt = nc.m.record('target', cells, const=True)
    nc.m.record('ret', {})
    out = nc.m.call('_ZNK7awkward%s21broadcast_tooffsets64ERKNS_7IndexOfIlEE' % short, [Ptr('ret', 0), this, tgt])
    size1 = cls == 'RegularArray' and dims[0] == 1
    if len(counts) != len(lens0):
        should_raise = True
    elif size1:
        should_raise = False
    else:
        should_raise = any(c != L for c, L in zip(counts, lens0))
    obls = [('raises exactly when some list does not have the length the target asks for', z3.simplify(out.raised) != z3.BoolVal(should_raise))]
    if not should_raise:
        want = [[lst[0]] * c for lst, c in zip(lists, counts)] if size1 else lists
        for g, res in nodeh.decode_cases(nc, out.mem, nc.m.cell('ret', 0)):
            if res is None:
                obls.append(('a result is returned', z3.And(g, z3.Not(out.raised))))
            else:
                obls += [(nm, z3.And(g, z3.Not(out.raised), c)) for nm, c in nodeh.compare_value(res, want)]
    def replay(model, ent):
        lc = model.eval(nc.lencontent, model_completion=True).as_signed_long()
        if lc > 200:
            return False, 'content too long to replay (%d)' % lc, {}
        head, inp = node_program(nc, model, lc)
        prog = head + 'broadcast %s' % fullnative.ints(tv)
        kind, got = fullnative.akrun(prog)
        payload = dict(program=prog, native=[kind, got])
        if should_raise:
            if kind != 'ERR':
                return True, '%s %s re-cut to counts %s: list lengths differ, but the native library returns %s %s' % (cls, inp, counts, kind, str(got)[:150]), payload
            return False, 'native library raises', payload
        exp = [[lst[0]] * c for lst, c in zip(inp, counts)] if size1 else inp
        if kind != 'OK' or got != exp:
            return True, '%s %s re-cut to counts %s: native library %s %s, expected %s' % (cls, inp, counts, kind, str(got)[:150], exp), payload
        return False, 'native library agrees (%s)' % (got,), payload
    return mdischarge(nc.m, '%s::broadcast_tooffsets64 shape=%s counts=%s' % (cls, ','.join(map(str, dims)), ','.join(map(str, counts))), obls, [], replay=replay,
                      prefer=[nc.lencontent <= 24] + [o <= 20 for o in offs],
                      extra=dict(bounds='shape %s and target counts %s concrete (case split), origins symbolic' % (dims, counts)))


def jobs_c04(tier):
    js = []
    L = 3 if tier == 'quick' else 4
    for cls in ('ListOffsetArray64', 'ListArray64'):
        for lens in ([(2, 0, 1), (1, 1)] if tier == 'quick' else [l for n in (1, 2, 3) for l in itertools.product(range(3), repeat=n)]):
            js.append((h_broadcast_tooffsets, (cls, lens, lens), 1800))
            for i in range(len(lens)):
                for d in (-1, 1):
                    c = list(lens); c[i] += d
                    if c[i] >= 0:
                        js.append((h_broadcast_tooffsets, (cls, lens, tuple(c)), 1800))
            # same total, different split
            if len(lens) >= 2 and lens[0] > 0:
                c = list(lens); c[0] -= 1; c[1] += 1
                js.append((h_broadcast_tooffsets, (cls, lens, tuple(c)), 1800))
    for length in (1, 2, 3):
        for counts in itertools.product(range(L), repeat=length):
            js.append((h_broadcast_tooffsets, ('RegularArray', (1, length), counts), 1800))
        js.append((h_broadcast_tooffsets, ('RegularArray', (2, length), (2,) * length), 1800))
        js.append((h_broadcast_tooffsets, ('RegularArray', (2, length), (2,) * (length - 1) + (1,)), 1800))
    return js


# ------------------------------------------------------------------------------------------------ C06: ListOffsetArray64::sort_next / argsort_next, local branch
@guard
def h_sort_local(lens, arg):
    """ListOffsetArray64::sort_next / argsort_next for sorting below this list level (axis=-1 on lists of numbers): the content is handed exactly
    the elements the lists cover, in order, with parents[k] = the list holding element k and one range per list; what it returns is cut back into
    the same list lengths, list i receiving positions [sum(len[:i]), sum(len[:i+1])) of the answer - nothing moves between lists"""
    lens = list(lens)
    n, total = len(lens), sum(lens)
    nc = NodeCtx(['LOA', 'LA', 'RA', 'IDX', 'CNT', 'UTL', 'KD', 'IDS', 'NA'], [], unwind=max(10, total + n + 6))
    S = z3.Function('SORTED', z3.BitVecSort(64), z3.BitVecSort(64))
    seen = []

    def s_sort_next(eng, fr, ins, st, name, argv):
        if arg:
            sret, selfp, negaxis, starts, shifts, parents, outlength, asc, stable = argv
        else:
            sret, selfp, negaxis, starts, parents, outlength, asc, stable = argv
        nm, info = nc.content_info(selfp, st, eng)
        seen.append(dict(pc=st.pc, info=info, negaxis=negaxis, parents=nc.index_terms(st.mem, parents, 'parents')[0], nstarts=st.mem.o[starts.obj].cells[starts.off + 40][0],
                         starts=starts, mem=st.mem, outlength=outlength, asc=asc, stable=stable))
        k = z3.BitVec('k!', 64)
        nc._ret(st, sret, nc.fresh_content(eng, st, info['length'], z3.Lambda([k], S(k)), derived='sorted'))
        return None
    nc.m.eng.stubs['vf$slot%d' % nc.slot('12argsort_nextEl' if arg else '9sort_nextEl')] = s_sort_next
    nc.m.eng.stubs['vf$slot%d' % nc.slot('12branch_depthEv')] = lambda eng, fr, ins, st, name, argv: [z3.BitVecVal(0, 8), BV(1)]
    this, lists, offs = build_listoffset64(nc, lens)
    p0 = nc.m.array('parents0', ('i', 64), max(1, n), const=True, arr=z3.K(z3.BitVecSort(64), BV(0)))
    s0 = nc.m.array('starts0', ('i', 64), 1, const=True, arr=z3.K(z3.BitVecSort(64), BV(0)))
    mk = lambda nm, data, ln: (lambda cells: (nc.index_cells(cells, 0, data, BV(0), BV(ln)), nc.m.record(nm, cells, const=True))[1])({})
    parents, starts, shifts = mk('parents', p0, n), mk('starts', s0, 1), mk('shifts', NULL, 0)
    nc.m.record('ret', {})
    asc, stable = z3.BitVecVal(1, 1), z3.BitVecVal(1, 1)
    cands = [f for mod_ in nc.m.eng.mods for f in mod_.func_src if f.startswith('_ZNK7awkward17ListOffsetArrayOfIlE%s' % ('12argsort_nextEl' if arg else '9sort_nextEl'))]
    if not cands:
        raise Unsupported('sort_next of ListOffsetArray64 not found in the IR')
    args = [Ptr('ret', 0), this, BV(1), starts] + ([shifts] if arg else []) + [parents, BV(1), asc, stable]
    out = nc.m.call(cands[0], args)
    what = 'argsort_next' if arg else 'sort_next'
    obls = [('%s does not raise' % what, out.raised)]
    if n:
        obls.append(('the content is asked', z3.Not(z3.Or([ob['pc'] for ob in seen] + [z3.BoolVal(False)]))))
    for ob in seen:
        info, g = ob['info'], ob['pc']
        G = lambda c: z3.And(g, c)
        obls.append(('the content handed over has the summed length of the lists', G(info['length'] != total)))
        for k in range(total):
            obls.append(('element %d handed over is element %d of the covered range' % (k, k), G(z3.Select(info['atoms'], BV(k)) != offs[0] + k)))
        want_par = [i for i, L in enumerate(lens) for _ in range(L)]
        if len(ob['parents']) != total:
            obls.append(('one parent per element', g))
        else:
            for k, (a, w) in enumerate(zip(ob['parents'], want_par)):
                obls.append(('parents[%d] is the list holding element %d' % (k, k), G(a != w)))
        obls.append(('one range per list', G(ob['nstarts'] != n)))
        if arg and n:
            # argsort answers positions inside each list: the content subtracts the start of the list, so the starts handed on must be positions in
            # the content handed over (which begins at the first covered element), not in this node's own content
            try:
                sv = nc.index_terms(ob['mem'], ob['starts'], 'starts')[0]
            except Unsupported:
                sv = None
            if sv is None or len(sv) != n:
                obls.append(('the starts handed on can be read, one per list', g))
            else:
                for i in range(n):
                    obls.append(('starts[%d] handed on is the position of list %d in the content handed over' % (i, i), G(sv[i] != sum(lens[:i]))))
        obls.append(('outlength is the number of lists', G(ob['outlength'] != n)))
        obls.append(('negaxis, ascending and stable are passed on unchanged', G(z3.Or(ob['negaxis'] != 1, ob['asc'] != 1, ob['stable'] != 1))))
    want, acc = [], 0
    for L in lens:
        want.append([Elem(S(BV(acc + j))) for j in range(L)])
        acc += L
    if n:
        for g, res in nodeh.decode_cases(nc, out.mem, nc.m.cell('ret', 0)):
            if res is None:
                obls.append(('a result is returned', z3.And(g, z3.Not(out.raised))))
            else:
                obls += [(nm, z3.And(g, c)) for nm, c in nodeh.compare_value(res, want)]

    def replay(model, ent):
        ov = offsets_values(model, offs)
        lc = max(model.eval(nc.lencontent, model_completion=True).as_signed_long(), ov[-1])
        if lc > 200:
            return False, 'content too long to replay', dict(offsets=ov)
        data = [(7 * k + 3) % 11 for k in range(lc)]
        inp = [data[ov[i]:ov[i + 1]] for i in range(n)]
        # option-type values (none of them missing) for argsort: that is the content class that uses the starts handed on
        prog = 'i64 %s %slistoffset64 %s %s 1 1 1' % (fullnative.ints(data), 'option64 %s ' % fullnative.ints(range(lc)) if arg else '', fullnative.ints(ov), 'argsort' if arg else 'sort')
        exp = [sorted(range(len(l)), key=lambda j: (l[j], j)) for l in inp] if arg else [sorted(l) for l in inp]
        return akrun_check(prog, exp, '%s(axis=1) of ListOffsetArray64(offsets=%s) over %s' % ('argsort' if arg else 'sort', ov, data))
    return mdischarge(nc.m, 'ListOffsetArray64::%s local lens=%s' % (what, ','.join(map(str, lens))), obls, [('non-zero offset origin', offs[0] > 0)] if n else [], replay=replay,
                      prefer=[offs[0] <= 3, offs[0] >= 1, nc.lencontent <= offs[-1] + 2, nc.lencontent == offs[-1]],
                      extra=dict(bounds='list lengths %s concrete (case split); offsets origin and content length symbolic; opaque leaf content' % lens))


def jobs_c06(tier):
    shapes = [(2,), (0, 3), (2, 0, 1)] if tier == 'quick' else [l for n in (1, 2, 3) for l in itertools.product(range(4), repeat=n)]
    return [(h_sort_local, (l, a), 1800) for l in shapes for a in (False, True)]


# ------------------------------------------------------------------------------------------------ C09 / C11: simplify_optiontype (option of option, index of index)
INDEXED = {  # name -> (mangled class, element bits, mangled T, is option)
    'IndexedArray32': ('N7awkward14IndexedArrayOfIiLb0EEE', 32, 'i', False), 'IndexedArrayU32': ('N7awkward14IndexedArrayOfIjLb0EEE', 32, 'j', False),
    'IndexedArray64': ('N7awkward14IndexedArrayOfIlLb0EEE', 64, 'l', False),
    'IndexedOptionArray32': ('N7awkward14IndexedArrayOfIiLb1EEE', 32, 'i', True), 'IndexedOptionArray64': ('N7awkward14IndexedArrayOfIlLb1EEE', 64, 'l', True),
}


def build_indexed(nc, cls, pattern, content_ptr, content_len, name):
    """IndexedArray / IndexedOptionArray of any index width over the given content; pattern[i] True = missing (option classes only)"""
    mangled, bits, T, option = INDEXED[cls]
    n = len(pattern)
    fo, sz, al, fields = nc.layout_of('IA', '_ZNK7awkward14IndexedArrayOfI%sLb%dEE6lengthEv' % (T, 1 if option else 0))
    data = nc.m.array(name + '_index', ('i', bits), n, const=True)
    a0 = z3.Array(name + '_index', z3.BitVecSort(64), z3.BitVecSort(bits))
    raw = [z3.Select(a0, BV(i)) for i in range(n)]
    idx = []
    for i, miss in enumerate(pattern):
        v = z3.ZeroExt(64 - bits, raw[i]) if T == 'j' else (z3.SignExt(64 - bits, raw[i]) if bits < 64 else raw[i])
        if miss and not option:
            raise Unsupported('a non-option IndexedArray has no missing entries')
        nc.m.assume(v < 0 if miss else z3.And(v >= 0, v < content_len))
        idx.append(v)
    cells = nc.content_header(name, nc.vptr_of(mangled, 'IA'))
    nc.index_cells(cells, fo[1], data, BV(0), BV(n), mangled_T=T)
    cells.update({fo[2]: (content_ptr, 8), fo[2] + 8: (NULL, 8)})
    return nc.m.record(name, cells, const=True), idx


for _k, (_m, _b, _t, _o) in list(INDEXED.items()):
    nodeh.CLASSES.setdefault(_m, ('IA', '_ZNK7awkward14IndexedArrayOfI%sLb%dEE6lengthEv' % (_t, 1 if _o else 0), 'option' if _o else 'indexed'))


@guard
def h_simplify_option(outer_cls, outer_pat, inner_cls, inner_pat):
    """simplify_optiontype of an indexed / option node whose content is itself an indexed / option node: the two levels collapse into one whose
    value is unchanged - entry i is None iff the outer entry is missing or the inner entry it points to is missing, else the same atom - and the
    result is option-type whenever either level was (a non-option result never carries a negative index)"""
    outer_pat, inner_pat = tuple(map(bool, outer_pat)), tuple(map(bool, inner_pat))
    nc = NodeCtx(['IA', 'BMA', 'BIT', 'UMA', 'IDX', 'CNT', 'UTL', 'KD', 'IDS'], [], unwind=max(10, 2 * len(outer_pat) + len(inner_pat) + 8))
    nin = len(inner_pat)
    if inner_cls in INDEXED:
        inner, iidx = build_indexed(nc, inner_cls, inner_pat, nc.content0, nc.lencontent, 'inner')
        inner_at = lambda j: (z3.BoolVal(inner_pat[j]), iidx[j])
    elif inner_cls == 'ByteMaskedArray':
        inner, mk = build_bytemasked(nc, inner_pat, True, name='inner')
        inner_at = lambda j: (z3.BoolVal(inner_pat[j]), BV(j))
    elif inner_cls == 'UnmaskedArray':
        if any(inner_pat):
            raise Unsupported('an UnmaskedArray has no missing entries')
        inner, vals = build_unmasked(nc, nin, name='inner')
        inner_at = lambda j: (z3.BoolVal(False), BV(j))
    else:
        raise Unsupported(inner_cls)
    this, oidx = build_indexed(nc, outer_cls, outer_pat, inner, BV(nin), 'node')
    mangled, bits, T, option = INDEXED[outer_cls]
    nc.m.record('ret', {})
    out = nc.m.call('_ZNK7awkward14IndexedArrayOfI%sLb%dEE19simplify_optiontypeEv' % (T, 1 if option else 0), [Ptr('ret', 0), this])
    obls = [('simplify_optiontype does not raise', out.raised)]
    want = []
    for i, miss in enumerate(outer_pat):
        if miss:
            want.append(NONE)
            continue
        # the outer index is symbolic: the inner entry it selects is an ite over the inner positions
        none, val = z3.BoolVal(False), BV(-9)
        for j in reversed(range(nin)):
            nj, vj = inner_at(j)
            none = z3.If(oidx[i] == j, nj, none)
            val = z3.If(oidx[i] == j, vj, val)
        want.append(Elem(val, none))
    for g, res in nodeh.decode_cases(nc, out.mem, nc.m.cell('ret', 0)):
        if res is None:
            obls.append(('a result is returned', z3.And(g, z3.Not(out.raised))))
            continue
        obls += [(nm, z3.And(g, c)) for nm, c in nodeh.compare_value(res, want)]
        if res['cls'] == 'indexed':
            for i, t in enumerate(res.get('index', [])):
                obls.append(('a non-option result has no negative index (entry %d)' % i, z3.And(g, t < 0)))

    def replay(model, ent):
        ev = lambda t: model.eval(t, model_completion=True).as_signed_long()
        ov = [ev(x) for x in oidx]
        lc = max(ev(nc.lencontent), nin, 1)
        tok = {'IndexedArray32': 'indexed32', 'IndexedArrayU32': 'indexedU32', 'IndexedArray64': 'indexed64', 'IndexedOptionArray32': 'option32', 'IndexedOptionArray64': 'option64'}
        if inner_cls in INDEXED:
            iv = [ev(x) for x in iidx]
            lc = max([lc] + [v + 1 for v in iv])
            head = 'i64 %s %s %s ' % (fullnative.ints(range(lc)), tok[inner_cls], fullnative.ints(iv))
            inner_val = [None if v < 0 else v for v in iv]
        elif inner_cls == 'ByteMaskedArray':
            mv = [ev(x) for x in mk]
            head = 'i64 %s bytemask %s 1 ' % (fullnative.ints(range(lc)), fullnative.ints(mv))
            inner_val = [None if p else j for j, p in enumerate(inner_pat)]
        else:
            head = 'i64 %s unmasked ' % fullnative.ints(range(nin))
            inner_val = list(range(nin))
        if lc > 200:
            return False, 'content too long to replay', {}
        exp = [None if v < 0 else inner_val[v] for v in ov]
        prog = head + '%s %s simplify' % (tok[outer_cls], fullnative.ints(ov))
        return akrun_check(prog, exp, '%s(index=%s) over %s %s: simplify_optiontype' % (outer_cls, ov, inner_cls, inner_val))
    return mdischarge(nc.m, '%s[%s] over %s[%s]::simplify_optiontype' % (outer_cls, ''.join('N' if p else 'v' for p in outer_pat), inner_cls, ''.join('N' if p else 'v' for p in inner_pat)),
                      obls, [], replay=replay, prefer=[nc.lencontent <= 8],
                      extra=dict(bounds='outer %d / inner %d entries, missing patterns concrete (case split), index values symbolic' % (len(outer_pat), nin)))


def jobs_simplify(tier):
    js = []
    outers = [('IndexedOptionArray64', (0, 1, 0)), ('IndexedArray64', (0, 0, 0)), ('IndexedOptionArray32', (0, 1)), ('IndexedArray32', (0, 0))]
    inners = [('IndexedArray32', (0, 0)), ('IndexedArrayU32', (0, 0)), ('IndexedArray64', (0, 0)), ('IndexedOptionArray32', (0, 1)), ('IndexedOptionArray32', (1, 0, 0)),
              ('IndexedOptionArray64', (1, 0)), ('ByteMaskedArray', (0, 1)), ('UnmaskedArray', (0, 0))]
    if tier != 'quick':
        outers += [('IndexedArrayU32', (0, 0, 0)), ('IndexedOptionArray64', (1, 1)), ('IndexedOptionArray64', (0, 0, 0, 0))]
        inners += [('IndexedOptionArray64', (0, 0, 0)), ('ByteMaskedArray', (1, 1)), ('IndexedOptionArray32', (0, 0))]
    for oc, op in outers:
        for ic, ip in inners:
            js.append((h_simplify_option, (oc, op, ic, ip), 1800))
    return js


# ------------------------------------------------------------------------------------------------ C08: IndexedArray / IndexedOptionArray mergemany (concatenation of indexed nodes)
def install_merge_stub(nc):
    """opaque contents answer mergemany with a fresh content whose atoms are the operands' atoms, in order"""
    def s_content_mergemany(eng, fr, ins, st, name, argv):
        sret, selfp, vec = argv
        first, finfo = nc.content_info(selfp, st, eng)
        o = st.mem.o[vec.obj]
        b, e = o.cells[vec.off][0], o.cells[vec.off + 8][0]
        parts = [finfo]
        bc = [(g, q) for g, q in nodeh.ptr_cases(b) if q.obj is not None]
        ec = [(g, q) for g, q in nodeh.ptr_cases(e) if q.obj is not None]
        if bc:
            qb, qe = bc[0][1], ec[0][1]
            buf = st.mem.o[qb.obj]
            nbytes = nodeh.concrete(nodeh.BV(qe.off) - nodeh.BV(qb.off) if isinstance(qe.off, int) else qe.off - qb.off, 'size of the vector of contents to merge')
            if isinstance(buf, nodeh.RecObj):
                ptrs = [buf.cells[qb.off + 16 * i][0] for i in range(nbytes // 16)]
            else:
                ptrs = [buf.arr[nodeh.concrete(qb.off, 'vector offset') + 2 * i] for i in range(nbytes // 2)] if False else [eng.load(st, Ptr(qb.obj, qb.off + 2 * i), '%"class.awkward::Content"*', fr.mod, 'stub') for i in range(nodeh.concrete(qe.off - qb.off, 'vector size') // 2)]
            for p in ptrs:
                parts.append(nc.content_info(p, st, eng)[1])
        kk = z3.BitVec('k!', 64)
        total, body, cum = BV(0), BV(-7), []
        for info in parts:
            cum.append(total)
            total = total + info['length']
        for info, c0 in zip(parts, cum):          # later parts outermost: position kk belongs to the last part whose start is <= kk
            body = z3.If(kk >= c0, z3.Select(info['atoms'], kk - c0), body)
        nc._ret(st, sret, nc.fresh_content(eng, st, z3.simplify(total), z3.Lambda([kk], body), derived='merged'))
        return None
    nc.m.eng.stubs['vf$slot%d' % nc.slot('9mergemanyERKSt6vector')] = s_content_mergemany


@guard
def h_indexed_mergemany(specs):
    """mergemany of indexed / option nodes (what ak.concatenate does along axis 0): the result lists every entry of the first array, then of the
    second, ...: a missing entry stays missing, a present entry is still the same element of its own content, and the result is option-type
    as soon as one operand is (no negative index in a non-option result).  specs: ((class, missing pattern), ...), first = receiver"""
    specs = [(c, tuple(map(bool, p))) for c, p in specs]
    nc = NodeCtx(['IA', 'BMA', 'BIT', 'UMA', 'IDX', 'CNT', 'UTL', 'KD', 'IDS', 'EA'], [], unwind=max(12, sum(len(p) for c, p in specs) + 2 * len(specs) + 8))
    BASE = 1 << 32
    contents, nodes, idxs, masks = [], [], [], []
    for k, (cls, pat) in enumerate(specs):
        if k == 0:
            cp, clen = nc.content0, nc.lencontent
        else:
            clen = nc.m.bv('lencontent%d' % k)
            nc.m.assume(clen >= 0, clen <= 2 ** 20)
            kk = z3.BitVec('k!', 64)
            cp = nc.new_content_in(nc.m.mem, 'content_%d' % k, clen, z3.Lambda([kk], kk + k * BASE), const=True)
        if cls in INDEXED:
            node, idx = build_indexed(nc, cls, pat, cp, clen, 'node%d' % k)
            masks.append(None)
        else:
            # a masked operand ('ByteMaskedArray+' / '-' = valid_when, 'BitMaskedArray++' ... = valid_when, lsb_order, 'UnmaskedArray'): entry i shows content element i
            saved = nc.content0, nc.lencontent
            nc.content0, nc.lencontent = cp, clen
            try:
                if cls.startswith('ByteMaskedArray'):
                    node, mk = build_bytemasked(nc, pat, cls.endswith('+'), name='node%d' % k)
                    masks.append(('bytemask', mk, cls.endswith('+')))
                elif cls.startswith('BitMaskedArray'):
                    vw, lsb = cls[-2] == '+', cls[-1] == '+'
                    node, a0 = build_bitmasked(nc, pat, vw, lsb, name='node%d' % k)
                    masks.append(('bitmask', a0, vw, lsb))
                else:
                    if any(pat):
                        raise Unsupported('an UnmaskedArray has no missing entries')
                    node, _v = build_unmasked(nc, len(pat), name='node%d' % k)
                    masks.append(('unmasked',))
            finally:
                nc.content0, nc.lencontent = saved
            idx = [BV(-1) if miss else BV(i) for i, miss in enumerate(pat)]
        contents.append((cp, clen)); nodes.append(node); idxs.append(idx)
    nc.m.assume(nc.lencontent <= 2 ** 20)

    install_merge_stub(nc)
    # others: std::vector<ContentPtr> as a record of (ptr, ctrl) pairs
    cells = {}
    for i, nd in enumerate(nodes[1:]):
        cells[16 * i] = (nd, 8); cells[16 * i + 8] = (NULL, 8)
    nc.m.record('othersbuf', cells, const=True)
    nb = 16 * (len(nodes) - 1)
    others = nc.m.record('others', {0: (Ptr('othersbuf', 0), 8), 8: (Ptr('othersbuf', nb), 8), 16: (Ptr('othersbuf', nb), 8)}, const=True)
    nc.m.record('ret', {})
    if specs[0][0] in INDEXED:
        mangled, bits, T, option = INDEXED[specs[0][0]]
        pref = '_ZNK7awkward14IndexedArrayOfI%sLb%dEE9mergemanyE' % (T, 1 if option else 0)
    else:
        pref = '_ZNK7awkward%s9mergemanyE' % {'Byt': '15ByteMaskedArray', 'Bit': '14BitMaskedArray', 'Unm': '13UnmaskedArray'}[specs[0][0][:3]]
    cands = [f for mod_ in nc.m.eng.mods for f in mod_.func_src if f.startswith(pref)]
    if not cands:
        raise Unsupported('mergemany not found in the IR')
    out = nc.m.call(cands[0], [Ptr('ret', 0), nodes[0], others])
    obls = [('mergemany does not raise', out.raised)]
    want = []
    for k, ((cls, pat), idx) in enumerate(zip(specs, idxs)):
        for i, miss in enumerate(pat):
            want.append(NONE if miss else Elem(idx[i] + k * BASE))
    any_option = any((INDEXED[c][3] if c in INDEXED else True) for c, p in specs)
    for g, res in nodeh.decode_cases(nc, out.mem, nc.m.cell('ret', 0)):
        if res is None:
            obls.append(('a result is returned', z3.And(g, z3.Not(out.raised))))
            continue
        obls += [(nm, z3.And(g, c)) for nm, c in nodeh.compare_value(res, want)]
        if res['cls'] == 'indexed':
            for i, t in enumerate(res.get('index', [])):
                obls.append(('a non-option result has no negative index (entry %d)' % i, z3.And(g, t < 0)))

    def replay(model, ent):
        ev = lambda t: model.eval(t, model_completion=True).as_signed_long()
        tok = {'IndexedArray32': 'indexed32', 'IndexedArrayU32': 'indexedU32', 'IndexedArray64': 'indexed64', 'IndexedOptionArray32': 'option32', 'IndexedOptionArray64': 'option64'}
        prog, exp = '', []
        for k, ((cls, pat), idx) in enumerate(zip(specs, idxs)):
            iv = [ev(x) for x in idx]
            lc = max([ev(contents[k][1]), 1] + [v + 1 for v in iv])
            if lc > 100:
                return False, 'content too long to replay', {}
            if masks[k] is None:
                prog += 'i64 %s %s %s ' % (fullnative.ints([1000 * k + j for j in range(lc)]), tok[cls], fullnative.ints(iv))
            else:
                lc = max(lc, len(pat))
                prog += 'i64 %s ' % fullnative.ints([1000 * k + j for j in range(lc)])
                mk_ = masks[k]
                if mk_[0] == 'bytemask':
                    prog += 'bytemask %s %d ' % (fullnative.ints([model.eval(x, model_completion=True).as_signed_long() for x in mk_[1]]), 1 if mk_[2] else 0)
                elif mk_[0] == 'bitmask':
                    nbytes = (len(pat) + 7) // 8 or 1
                    prog += 'bitmask %s %d %d %d ' % (fullnative.ints([model.eval(z3.Select(mk_[1], BV(b_)), model_completion=True).as_long() for b_ in range(nbytes)]), 1 if mk_[2] else 0, len(pat), 1 if mk_[3] else 0)
                else:
                    prog += 'unmasked '
            exp += [None if v < 0 else 1000 * k + v for v in iv]
        prog += 'mergemany %d' % (len(specs) - 1)
        return akrun_check(prog, exp, 'mergemany of %s' % [(c, ''.join('N' if x else 'v' for x in p)) for c, p in specs])
    return mdischarge(nc.m, 'mergemany %s' % ' + '.join('%s[%s]' % (c, ''.join('N' if x else 'v' for x in p)) for c, p in specs), obls, [], replay=replay,
                      prefer=[c[1] <= 6 for c in contents], extra=dict(bounds='%d operands, missing patterns concrete (case split), index values and content lengths symbolic' % len(specs)))


def jobs_indexed_widths(tier):
    """C02: concatenation does not depend on the index width / option encoding of an operand (each class first and second, next to a plain one)"""
    A = [('IndexedOptionArray64', (0, 1)), ('IndexedArray64', (0, 0)), ('IndexedOptionArray32', (1, 0, 0)), ('IndexedArray32', (0,)), ('IndexedArrayU32', (0, 0))]
    return [(h_indexed_mergemany, ((a, A[1]),), 1800) for a in A] + [(h_indexed_mergemany, ((A[1], a),), 1800) for a in A if a != A[1]]


@guard
def h_union_same_content(tags, width='64'):
    """simplify_uniontype of a union whose two contents are the same buffer region (referentially equal - what where(cond, x, x) builds): the
    two become one, every entry still shows the element its own (tag, index) named - the index entries of the second content are not shifted"""
    tags = tuple(tags)
    nc = NodeCtx(['UNI', 'IA', 'IDX', 'CNT', 'UTL', 'KD', 'IDS', 'EA'], [], unwind=max(14, 3 * len(tags) + 12))
    kk = z3.BitVec('k!', 64)
    nc.m.assume(nc.lencontent >= 1, nc.lencontent <= 2 ** 20)
    twin = nc.new_content_in(nc.m.mem, 'content_twin', nc.lencontent, z3.Lambda([kk], kk), const=True)          # another object for the same region
    nc.m.eng.stubs['vf$slot%d' % nc.slot('19referentially_equalERKSt10shared_ptr')] = lambda eng, fr, ins, st, name, argv: z3.BitVecVal(1, 1)
    nc.m.eng.stubs['vf$slot%d' % nc.slot('9mergeableERKSt10shared_ptr')] = lambda eng, fr, ins, st, name, argv: z3.BitVecVal(0, 1)
    this, idx = build_union8_64(nc, tags, [nc.content0, twin], 'node', [nc.lencontent, nc.lencontent], width=width)
    nc.m.record('ret', {})
    out = nc.m.call('_ZNK7awkward12UnionArrayOfIa%sE18simplify_uniontypeEbb' % WIDTHS[width][0], [Ptr('ret', 0), this, z3.BitVecVal(1, 1), z3.BitVecVal(0, 1)])
    obls = [('simplify_uniontype does not raise', out.raised)]
    want = [Elem(idx[i]) for i in range(len(tags))]
    rcell = nc.m.cell('ret', 0)
    for g, res in (nodeh.decode_cases(nc, out.mem, rcell) if rcell is not None else []):
        if res is None:
            obls.append(('a result is returned', z3.And(g, z3.Not(out.raised))))
            continue
        obls += [(nm, z3.And(g, z3.Not(out.raised), c)) for nm, c in nodeh.compare_value(res, want)]

    def replay(model, ent):
        ev = lambda t: model.eval(t, model_completion=True).as_signed_long()
        iv = [ev(x) for x in idx]
        lc = max([min(ev(nc.lencontent), 40), 1] + [v + 1 for v in iv])
        if lc > 60:
            return False, 'content too long to replay', {}
        vals = [100 + k for k in range(lc)]
        prog = 'i64 %s dup union8_%s %d %s %s 2 simplify' % (fullnative.ints(vals), width, len(tags), ' '.join(map(str, tags)), ' '.join(map(str, iv)))
        return akrun_check(prog, [vals[v] for v in iv], 'union (tags %s, index %s) over the same array %s twice, simplified' % (list(tags), iv, vals))
    return mdischarge(nc.m, 'UnionArray8_%s::simplify_uniontype, two referentially equal contents, tags=%s' % (width, ''.join(map(str, tags))), obls, [], replay=replay,
                      prefer=[nc.lencontent <= 6], extra=dict(bounds='tags concrete (case split), index entries and content length symbolic; the two contents are distinct objects for one buffer region'))


def jobs_union_same_content(tier):
    q = [((0, 1, 0, 1), '64'), ((1, 1, 0), '32')]
    if tier != 'quick':
        q += [((1,), '64'), ((0, 0, 1), 'U32'), ((1, 0, 1, 1, 0), '64')]
    return [(h_union_same_content, a, 1800) for a in q]


def jobs_c08(tier):
    A = [('IndexedOptionArray64', (0, 1)), ('IndexedArray64', (0, 0)), ('IndexedOptionArray32', (1, 0, 0)), ('IndexedArray32', (0,)), ('IndexedArrayU32', (0, 0))]
    js = []
    for a in A:
        for b in A:
            js.append((h_indexed_mergemany, ((a, b),), 1800))
    M = [('ByteMaskedArray+', (0, 1)), ('ByteMaskedArray-', (1, 0)), ('BitMaskedArray+-', (0, 1, 0)), ('BitMaskedArray-+', (1, 0)), ('UnmaskedArray', (0, 0))]
    for k, mop in enumerate(M):
        for a in (A[k % len(A):k % len(A) + 1] if tier == 'quick' else A[:3]):
            js.append((h_indexed_mergemany, ((a, mop),), 1800))
            js.append((h_indexed_mergemany, ((mop, a),), 1800))
    trip = [(A[2], A[0], A[1]), (A[0], A[2], A[3]), (A[1], A[2], A[0])] if tier == 'quick' else [(a, b, c) for a in A[:3] for b in A[:4] for c in A[:3]]
    for t in trip:
        js.append((h_indexed_mergemany, (t,), 1800))
    return js


# ------------------------------------------------------------------------------------------------ C02: conversions between encodings keep the value
CONVERSIONS = [
    # (class, method symbol prefix after the class name, extra args, kind)
    ('ListOffsetArray64', '19toListOffsetArray64Eb', [1], 'same'), ('ListOffsetArray64', '19toListOffsetArray64Eb', [0], 'same'), ('ListOffsetArray64', '14toRegularArrayEv', [], 'regular'),
    ('ListArray64', '19toListOffsetArray64Eb', [1], 'same'), ('ListArray64', '14toRegularArrayEv', [], 'regular'),
    ('RegularArray', '19toListOffsetArray64Eb', [1], 'same'),
    ('IndexedOptionArray64', '7projectEv', [], 'project'), ('ByteMaskedArray', '7projectEv', [], 'project'), ('BitMaskedArray', '7projectEv', [], 'project'), ('UnmaskedArray', '7projectEv', [], 'project'),
    ('ByteMaskedArray', '22toIndexedOptionArray64Ev', [], 'same'), ('BitMaskedArray', '22toIndexedOptionArray64Ev', [], 'same'), ('BitMaskedArray', '17toByteMaskedArrayEv', [], 'same'),
    ('UnmaskedArray', '22toIndexedOptionArray64Ev', [], 'same'), ('UnmaskedArray', '17toByteMaskedArrayEv', [], 'same'),
]


@guard
def h_convert(cls, dims, variant, meth, extra, kind):
    """conversion of a node to another encoding of the same value (what operations do before delegating): toListOffsetArray64 (with or without
    re-basing), toRegularArray (raises unless all lists have one length), toIndexedOptionArray64 / toByteMaskedArray, project() (drops exactly the
    missing entries): the nested-list value of the result equals that of the receiver"""
    nc = NodeCtx(['LOA', 'LA', 'RA', 'IA', 'BMA', 'BIT', 'UMA', 'IDX', 'CNT', 'UTL', 'KD', 'IDS'], [], unwind=max(12, 3 * sum(dims) + 3 * len(dims) + 10))
    head_of = None
    if cls == 'RegularArray' or cls.startswith('ListOffsetArray') or cls.startswith('ListArray'):
        this, vals, short, rp = any_node(nc, cls, dims)
        lens0 = node_lens(cls, dims)
    elif cls == 'IndexedOptionArray64':
        this, vals, short, rp = any_node(nc, cls, dims)
    elif cls == 'ByteMaskedArray':
        pat = tuple(map(bool, dims))
        this, mk = build_bytemasked(nc, pat, variant)
        vals = [NONE if p else Elem(BV(i)) for i, p in enumerate(pat)]
        short = '15ByteMaskedArray'
        rp = lambda model, lc: ('i64 %s bytemask %s %d ' % (fullnative.ints(range(max(lc, len(pat)))), fullnative.ints([model.eval(x, model_completion=True).as_signed_long() for x in mk]), 1 if variant else 0),
                                [None if p else i for i, p in enumerate(pat)])
    elif cls == 'BitMaskedArray':
        pat = tuple(map(bool, dims))
        vw, lsb = variant[:2]
        extra_ = variant[2] if len(variant) > 2 else 0          # mask bytes beyond the needed ones
        this, a0 = build_bitmasked(nc, pat, vw, lsb, extra=extra_)
        vals = [NONE if p else Elem(BV(i)) for i, p in enumerate(pat)]
        short = '14BitMaskedArray'
        nbytes = ((len(pat) + 7) // 8 or 1) + extra_
        rp = lambda model, lc: ('i64 %s bitmask %s %d %d %d ' % (fullnative.ints(range(max(lc, len(pat)))), fullnative.ints([model.eval(z3.Select(a0, BV(k)), model_completion=True).as_long() for k in range(nbytes)]),
                                                                     1 if vw else 0, len(pat), 1 if lsb else 0), [None if p else i for i, p in enumerate(pat)])
    else:
        this, vals, short, rp = any_node(nc, 'UnmaskedArray', (len(dims),))
    nc.m.record('ret', {})
    cands = [f for mod_ in nc.m.eng.mods for f in mod_.func_src if f.startswith('_ZNK7awkward%s%s' % (short, meth))]
    if not cands:
        raise Unsupported('%s of %s not found in the IR' % (meth, cls))
    out = nc.m.call(cands[0], [Ptr('ret', 0), this] + [z3.BitVecVal(x, 1) for x in extra])
    if kind == 'regular':
        uniform = len(set(lens0)) <= 1
        obls = [('toRegularArray raises exactly when the lists differ in length', z3.simplify(out.raised) != z3.BoolVal(not uniform))]
        want = vals if uniform else None
    elif kind == 'project':
        obls = [('project does not raise', out.raised)]
        want = [v for v in vals if not z3.is_true(z3.simplify(v.none))]
    else:
        obls = [('the conversion does not raise', out.raised)]
        want = vals
    if want is not None:
        for g, res in nodeh.decode_cases(nc, out.mem, nc.m.cell('ret', 0)):
            if res is None:
                obls.append(('a result is returned', z3.And(g, z3.Not(out.raised))))
                continue
            obls += [(nm, z3.And(g, z3.Not(out.raised), c)) for nm, c in nodeh.compare_value(res, want)]
            if meth.startswith('19toListOffsetArray64') and extra == [1] and res['cls'] == 'listoffset' and res['offsets']:
                obls.append(('the re-based offsets start at zero', z3.And(g, res['offsets'][0] != 0)))
    def replay(model, ent):
        lc = model.eval(nc.lencontent, model_completion=True).as_signed_long()
        if lc > 200:
            return False, 'content too long to replay', {}
        head, inp = rp(model, lc)
        op = {'19toListOffsetArray64Eb': 'tolistoffset64 %d' % (extra[0] if extra else 1), '14toRegularArrayEv': 'toregular', '7projectEv': 'project',
              '22toIndexedOptionArray64Ev': 'tooption64', '17toByteMaskedArrayEv': 'tobytemask'}[meth]
        kind_, got = fullnative.akrun(head + op)
        payload = dict(program=head + op, native=[kind_, got])
        if kind == 'regular' and len(set(lens0)) > 1:
            if kind_ != 'ERR':
                return True, '%s %s::toRegularArray: lists differ in length but the native library returns %s %s' % (cls, inp, kind_, str(got)[:120]), payload
            return False, 'native library raises', payload
        exp = [v for v in inp if v is not None] if kind == 'project' else inp
        if kind_ != 'OK' or got != exp:
            return True, '%s %s::%s: native library %s %s, expected the same value %s' % (cls, inp, op, kind_, str(got)[:150], exp), payload
        return False, 'native library agrees (%s)' % (got,), payload
    return mdischarge(nc.m, '%s::%s%s shape=%s variant=%s' % (cls, meth[2:].rstrip('Evb'), extra or '', ','.join(map(str, dims)), variant), obls, [], replay=replay, prefer=[nc.lencontent <= 24],
                      extra=dict(bounds='shape / missing pattern %s concrete (case split); origins, index values, mask bytes symbolic' % (dims,)))


def jobs_c02(tier):
    js = []
    shapes = [(2, 0, 1), (2, 2), (0,)] if tier == 'quick' else [l for n in (1, 2, 3) for l in itertools.product(range(3), repeat=n)]
    regs = [(2, 2), (0, 3), (1, 2)] if tier == 'quick' else [(s_, l_) for s_ in range(3) for l_ in range(3)]
    pats = [(0, 1, 0), (1, 1), (0, 0)] if tier == 'quick' else [p for k in (1, 2, 3) for p in itertools.product((0, 1), repeat=k)]
    for cls, meth, extra, kind in CONVERSIONS:
        if cls in ('ListOffsetArray64', 'ListArray64'):
            for d in shapes:
                js.append((h_convert, (cls, d, None, meth, extra, kind), 1800))
        elif cls == 'RegularArray':
            for d in regs:
                js.append((h_convert, (cls, d, None, meth, extra, kind), 1800))
        elif cls == 'IndexedOptionArray64':
            for p in pats:
                js.append((h_convert, (cls, p, None, meth, extra, kind), 1800))
        elif cls == 'ByteMaskedArray':
            for p in pats:
                for vw in (True, False):
                    js.append((h_convert, (cls, p, vw, meth, extra, kind), 1800))
        elif cls == 'BitMaskedArray':
            for p in pats:
                for v in itertools.product((True, False), repeat=2):
                    js.append((h_convert, (cls, p, v, meth, extra, kind), 1800))
            # a mask longer than the entries need (padded bitmap): one and two surplus bytes
            js.append((h_convert, (cls, pats[0], (True, True, 1), meth, extra, kind), 1800))
            js.append((h_convert, (cls, (0,) * 8 + (1,), (False, False, 2), meth, extra, kind), 1800))
        else:
            js.append((h_convert, (cls, (0, 0, 0), None, meth, extra, kind), 1800))
    return js


# ------------------------------------------------------------------------------------------------ C10: RecordArray - positional operations act on every field alike
def build_record(nc, nfields, length, name='node', tag='', first=True, space=0):
    """RecordArray with `nfields` opaque field contents (each at least `length` long, in its own atom space) and no field names (a tuple)"""
    fo, sz, al, fields = nc.layout_of('REC', '_ZNK7awkward11RecordArray6lengthEv')
    BASE = 1 << 32
    parr, lens = [], []
    for k in range(nfields):
        if k == 0 and first:
            cp, clen = nc.content0, nc.lencontent
        else:
            clen = nc.m.bv('lencontent%s%d' % (tag, k))
            kk = z3.BitVec('k!', 64)
            cp = nc.new_content_in(nc.m.mem, 'content_%s%d' % (tag, k), clen, z3.Lambda([kk], kk + (k + space) * BASE), const=True)
        nc.m.assume(clen >= length, clen <= 2 ** 20)
        parr += [cp, NULL]; lens.append(clen)
    cells = {}
    for i, p in enumerate(parr):
        cells[8 * i] = (p, 8)
    nc.m.record(name + '_contents', cells, const=True)
    nb = 16 * nfields
    hdr = nc.content_header(name, nc.vptr_of('N7awkward11RecordArrayE', 'REC'))
    hdr.update({fo[1]: (NULL, 8), fo[1] + 8: (NULL, 8),
                fo[2]: (Ptr(name + '_contents', 0) if nfields else NULL, 8), fo[2] + 8: (Ptr(name + '_contents', nb) if nfields else NULL, 8), fo[2] + 16: (Ptr(name + '_contents', nb) if nfields else NULL, 8),
                fo[3]: (NULL, 8), fo[3] + 8: (NULL, 8), fo[4]: (BV(length), 8), fo[5]: (NULL, 8), fo[5] + 8: (NULL, 8), fo[5] + 16: (NULL, 8)})
    this = nc.m.record(name, hdr, const=True)
    vals = [[Elem(BV(i + (k + space) * BASE)) for k in range(nfields)] for i in range(length)]
    return this, vals, lens


@guard
def h_record(nfields, length, op, arg):
    """RecordArray: a positional operation (carry by an index, a range, one field by position) treats every field alike: record i of the result
    holds, field by field, what the same operation selects from each field content; field order and record count follow the operation"""
    nc = NodeCtx(['REC', 'IA', 'IDX', 'CNT', 'UTL', 'KD', 'IDS'], [], unwind=max(12, 2 * nfields + length + (arg if isinstance(arg, int) else 4) + 8))
    this, vals, lens = build_record(nc, nfields, length)
    nc.m.record('ret', {})
    BASE = 1 << 32
    if op == 'carry':
        n = arg
        data = nc.m.array('carrydata', ('i', 64), max(1, n), const=True)
        a0 = z3.Array('carrydata', z3.BitVecSort(64), z3.BitVecSort(64))
        iv = [z3.Select(a0, BV(i)) for i in range(n)]
        for v in iv:
            nc.m.assume(v >= 0, v < length)
        if n >= 2:
            nc.m.assume(z3.Or([iv[i] != i for i in range(n)]))       # not the contiguous 0..n-1 (that case is the range below)
        cells = {}
        nc.index_cells(cells, 0, data, BV(0), BV(n))
        idx = nc.m.record('carryindex', cells, const=True)
        out = nc.m.call('_ZNK7awkward11RecordArray5carryERKNS_7IndexOfIlEEb', [Ptr('ret', 0), this, idx, z3.BitVecVal(0, 1)])
        want = [[Elem(iv[i] + k * BASE) for k in range(nfields)] for i in range(n)]
        desc = 'carry by %d indexes' % n
    elif op == 'range':
        a, b = arg
        out = nc.m.call('_ZNK7awkward11RecordArray20getitem_range_nowrapEll', [Ptr('ret', 0), this, BV(a), BV(b)])
        want = vals[a:b]
        desc = 'range [%d:%d]' % (a, b)
    else:
        k = arg
        out = nc.m.call('_ZNK7awkward11RecordArray5fieldEl', [Ptr('ret', 0), this, BV(k)])
        want = None
        desc = 'field %d' % k
    obls = [('%s does not raise' % desc, out.raised)] if not (op == 'field' and not (0 <= arg < nfields)) else [('a field position outside the record raises', z3.Not(out.raised))]
    rcell = nc.m.cell('ret', 0)
    for g, res in (nodeh.decode_cases(nc, out.mem, rcell) if rcell is not None else []):
        if res is None:
            if not (op == 'field' and not (0 <= arg < nfields)):
                obls.append(('a result is returned', z3.And(g, z3.Not(out.raised))))
            continue
        if op == 'field':
            if res['cls'] != 'opaque' or res['name'] != ('content0' if arg == 0 else 'content_%d' % arg):
                obls.append(('field(%d) is the content of field %d' % (arg, arg), z3.And(g, z3.Not(out.raised))))
        else:
            if nfields == 0:
                obls.append(('the record count follows the operation', z3.And(g, res['length'] != len(want))) if res['cls'] == 'record' else ('a RecordArray is returned', g))
            else:
                obls += [(nm, z3.And(g, z3.Not(out.raised), c)) for nm, c in nodeh.compare_value(res, want)]
            if res['cls'] == 'record':
                obls.append(('the field names (none here) are kept', z3.And(g, z3.Not(nc.m.eng.is_null(res['recordlookup'])))))
    def replay(model, ent):
        ev = lambda t: model.eval(t, model_completion=True).as_signed_long()
        lcs = [max(ev(l), length, 1) for l in lens]
        if max(lcs + [0]) > 100:
            return False, 'content too long to replay', {}
        head = ''.join('i64 %s ' % fullnative.ints([1000 * k + j for j in range(lcs[k])]) for k in range(nfields)) + 'tuple %d %d ' % (nfields, length)
        recs = [{str(k): 1000 * k + i for k in range(nfields)} for i in range(length)]
        if op == 'carry':
            cv = [ev(v) for v in iv]
            prog, exp = head + 'carry %s' % fullnative.ints(cv), [recs[v] for v in cv]
        elif op == 'range':
            prog, exp = head + 'view %d %d' % arg, recs[arg[0]:arg[1]]
        else:
            prog, exp = head + 'fieldat %d' % arg, ([1000 * arg + j for j in range(lcs[arg])] if 0 <= arg < nfields else None)
        kind_, got = fullnative.akrun(prog)
        payload = dict(program=prog, native=[kind_, got], expected=exp)
        if exp is None:
            if kind_ != 'ERR':
                return True, 'RecordArray with %d fields: field(%d) is outside the record, but the native library gives %s %s' % (nfields, arg, kind_, str(got)[:200]), payload
            return False, 'native library raises', payload
        if nfields == 0 and op != 'field':
            exp = [{} for _ in exp]
        if kind_ != 'OK' or got != exp:
            return True, 'RecordArray(%d fields, %d records) %s: native library %s %s, expected %s' % (nfields, length, desc, kind_, str(got)[:150], exp), payload
        return False, 'native library agrees (%s)' % (got,), payload
    return mdischarge(nc.m, 'RecordArray(%d fields, %d records) %s' % (nfields, length, desc), obls, [], replay=replay, prefer=[l <= length + 2 for l in lens],
                      extra=dict(bounds='%d fields, %d records, operation shape concrete (case split); carry index values and content lengths symbolic' % (nfields, length)))


def jobs_c10(tier):
    js = []
    for nf in (0, 1, 2, 3):
        for length in (0, 2, 3):
            for n in (0, 1, 2, 3):
                if length or n == 0:
                    js.append((h_record, (nf, length, 'carry', n), 1800))
            for a, b in ((0, 0), (0, length), (1, length), (0, max(0, length - 1)), (1, 2)):
                if 0 <= a <= b <= length:
                    js.append((h_record, (nf, length, 'range', (a, b)), 1800))
        for k in range(-1, nf + 1):
            js.append((h_record, (nf, 2, 'field', k), 1800))
    return js


# ------------------------------------------------------------------------------------------------ C01 / C02: carry and ranges on every node class
def generic_node(nc, cls, dims, variant=None):
    """-> (this, nested value, short mangled class name, replay head builder)"""
    if cls in ('RegularArray', 'UnmaskedArray', 'IndexedOptionArray64') or cls.startswith('ListOffsetArray') or cls.startswith('ListArray'):
        return any_node(nc, cls, dims)
    pat = tuple(map(bool, dims))
    if cls == 'ByteMaskedArray':
        this, mk = build_bytemasked(nc, pat, variant)
        return (this, [NONE if p else Elem(BV(i)) for i, p in enumerate(pat)], '15ByteMaskedArray',
                lambda model, lc: ('i64 %s bytemask %s %d ' % (fullnative.ints(range(max(lc, len(pat)))), fullnative.ints([model.eval(x, model_completion=True).as_signed_long() for x in mk]), 1 if variant else 0),
                                   [None if p else i for i, p in enumerate(pat)]))
    if cls == 'IndexedArray64':
        this, idx = build_indexed(nc, 'IndexedArray64', pat, nc.content0, nc.lencontent, 'node')

        def rp(model, lc):
            iv = [model.eval(x, model_completion=True).as_signed_long() for x in idx]
            return 'i64 %s indexed64 %s ' % (fullnative.ints(range(max([lc] + [v + 1 for v in iv]))), fullnative.ints(iv)), iv
        return this, [Elem(x) for x in idx], '14IndexedArrayOfIlLb0EE', rp
    raise Unsupported(cls)


@guard
def h_carry(cls, dims, variant, n):
    """carry(index) (integer-array selection of the node's own entries, the primitive under every advanced slice): entry i of the result is
    entry index[i] of the receiver, unchanged; indexes are in range (the callers check) """
    nc = NodeCtx(['LOA', 'LA', 'RA', 'IA', 'BMA', 'UMA', 'IDX', 'CNT', 'UTL', 'KD', 'IDS'], [], unwind=max(12, 2 * n + sum(dims) + len(dims) + 8))
    this, vals, short, rp = generic_node(nc, cls, dims, variant)
    length = len(vals)
    data = nc.m.array('carrydata', ('i', 64), max(1, n), const=True)
    a0 = z3.Array('carrydata', z3.BitVecSort(64), z3.BitVecSort(64))
    iv = [z3.Select(a0, BV(i)) for i in range(n)]
    for v in iv:
        nc.m.assume(v >= 0, v < length)
    cells = {}
    nc.index_cells(cells, 0, data, BV(0), BV(n))
    idx = nc.m.record('carryindex', cells, const=True)
    nc.m.record('ret', {})
    out = nc.m.call('_ZNK7awkward%s5carryERKNS_7IndexOfIlEEb' % short, [Ptr('ret', 0), this, idx, z3.BitVecVal(0, 1)])
    obls = [('carry with in-range indexes does not raise', out.raised)]
    want = []
    for i in range(n):
        # index values are symbolic: entry i is an ite over the receiver's entries
        want.append(_select(vals, iv[i]))
    rcell = nc.m.cell('ret', 0)
    for g, res in (nodeh.decode_cases(nc, out.mem, rcell) if rcell is not None else []):
        if res is None:
            obls.append(('a result is returned', z3.And(g, z3.Not(out.raised))))
        else:
            obls += [(nm, z3.And(g, z3.Not(out.raised), c)) for nm, c in nodeh.compare_value(res, want)]

    def replay(model, ent):
        cv = [model.eval(v, model_completion=True).as_signed_long() for v in iv]
        lc = model.eval(nc.lencontent, model_completion=True).as_signed_long()
        if lc > 200:
            return False, 'content too long to replay', {}
        head, inp = rp(model, lc)
        return akrun_check(head + 'carry %s' % fullnative.ints(cv), [inp[v] for v in cv], '%s %s carried by %s' % (cls, inp, cv))
    return mdischarge(nc.m, '%s::carry shape=%s variant=%s n=%d' % (cls, ','.join(map(str, dims)), variant, n), obls, [], replay=replay, prefer=[nc.lencontent <= 24],
                      extra=dict(bounds='shape / pattern %s and %d carry entries concrete (case split); carry values, origins, index values symbolic' % (dims, n)))


def _select(vals, k):
    """entry k (symbolic, in range) of a list of nested values with concrete shapes: element-wise ite"""
    def pick(items):
        first = items[0]
        if isinstance(first, list):
            n = len(first)
            if any(len(x) != n for x in items):
                raise Unsupported('carry over lists of different lengths needs a concrete index')
            return [pick([x[j] for x in items]) for j in range(n)]
        val, none = first.val, first.none
        for j in range(1, len(items)):
            val = z3.If(k == j, items[j].val, val)
            none = z3.If(k == j, items[j].none, none)
        return Elem(val, none)
    return pick(vals)


def jobs_carry(tier):
    js = []
    cases = [('ListOffsetArray64', (2, 2, 2), None), ('ListArray64', (1, 1), None), ('RegularArray', (2, 3), None), ('UnmaskedArray', (3,), None),
             ('IndexedOptionArray64', (0, 1, 0), None), ('IndexedArray64', (0, 0, 0), None), ('ByteMaskedArray', (0, 1, 0), True), ('ByteMaskedArray', (1, 0), False)]
    for cls, dims, variant in cases:
        for n in ((0, 2) if tier == 'quick' else (0, 1, 2, 3)):
            js.append((h_carry, (cls, dims, variant, n), 1800))
    return js


# ------------------------------------------------------------------------------------------------ C05: flatten through list nodes
@guard
def h_list_flatten(cls, dims, mode, off0=0):
    """offsets_and_flattened of a list node.  mode 'at': flattening this very level - zero-based offsets with the list lengths and the covered
    content in order.  'inner': flattening the level just below (the content's elements are lists of LEN <= 2 items): list i becomes the
    concatenation of the items of its elements.  'deep': flattening further down - same lists around what the content returns."""
    lens0 = node_lens(cls, dims)
    total = sum(lens0)
    nc = NodeCtx(['LOA', 'LA', 'RA', 'IA', 'IDX', 'CNT', 'UTL', 'KD', 'IDS', 'NA'], [], unwind=max(12, 3 * total + 3 * len(lens0) + off0 + 12))
    LEN, ITEM, FLAT = flatten_stub(nc, mode == 'deep')
    this, lists, starts, offs, short = list_node(nc, cls, dims)
    if mode == 'inner':
        if cls == 'ListOffsetArray64':
            nc.m.assume(offs[0] == off0)
        elif cls == 'ListArray64':
            for i, st_ in enumerate(starts):        # concrete, gapped layout: list i starts at off0 + (sum of earlier lengths) + i
                nc.m.assume(st_ == off0 + sum(lens0[:i]) + i)
        clen = (off0 + total + len(lens0) + 1) if cls != 'RegularArray' else dims[0] * dims[1]
        nc.m.assume(nc.lencontent == clen)
    nc.m.record('ret', {})
    axis = {'at': 1, 'inner': 2, 'deep': 3}[mode]
    out = nc.m.call('_ZNK7awkward%s21offsets_and_flattenedEll' % short, [Ptr('ret', 0), this, BV(axis), BV(0)])
    obls = [('flatten does not raise', out.raised)]
    roffs, _ = nc.index_terms(out.mem, Ptr('ret', 0), 'returned offsets')
    p = z3.BitVec('p!pos', 64)
    flatatoms = [e.val for lst in lists for e in lst]
    for g, res in nodeh.decode_cases(nc, out.mem, nc.m.cell('ret', 56)):
        g = z3.And(g, z3.Not(out.raised))
        if res is None:
            obls.append(('a flattened content is returned', g))
            continue
        if mode == 'at':
            want, acc = [BV(0)], 0
            for L in lens0:
                acc += L; want.append(BV(acc))
            if len(roffs) != len(want):
                obls.append(('offsets have one entry per list plus one', g))
            else:
                obls += [('offsets[%d] is the running sum of the list lengths' % i, z3.And(g, a != b)) for i, (a, b) in enumerate(zip(roffs, want))]
            ln, el = opaque_seq(res)
            obls.append(('the flattened content has the summed length', z3.And(g, ln != total)))
            obls += [('flattened element %d is element %d of the lists in order' % (k, k), z3.And(g, el(BV(k)) != a)) for k, a in enumerate(flatatoms)]
        elif mode == 'deep':
            obls.append(('no offsets are returned below the list level', z3.And(g, z3.BoolVal(len(roffs) != 0))))
            obls += [(nm, z3.And(g, c)) for nm, c in compare(value(res), [[Elem(FLAT(e.val)) for e in lst] for lst in lists])]
        else:
            obls.append(('no offsets are returned when flattening below this level', z3.And(g, z3.BoolVal(len(roffs) != 0))))
            if res['cls'] != 'listoffset' or len(res['offsets']) != len(lens0) + 1:
                obls.append(('the result keeps one list per list', g))
                continue
            ro = res['offsets']
            ln, el = opaque_seq(res['content'])
            for i, lst in enumerate(lists):
                cnt = BV(0)
                body = BV(-7)
                cums = []
                for e in lst:
                    cums.append(cnt)
                    cnt = cnt + LEN(e.val)
                for e, c0 in zip(lst, cums):
                    body = z3.If(p >= c0, ITEM(e.val, p - c0), body)
                obls.append(('list %d holds as many items as its elements hold together' % i, z3.And(g, ro[i + 1] - ro[i] != cnt)))
                obls.append(('item p of list %d is item (p - start) of the element that covers p' % i, z3.And(g, p >= 0, p < cnt, el(ro[i] + p) != body)))

    def replay(model, ent):
        lc = model.eval(nc.lencontent, model_completion=True).as_signed_long()
        if lc > 100:
            return False, 'content too long to replay', {}
        head, inp = node_program(nc, model, lc)
        if mode == 'at':
            return akrun_check(head + 'flatten 1', [x for lst in inp for x in lst], '%s %s::flatten(axis=1)' % (cls, inp))
        ntoks = head.split()
        cnt = int(ntoks[1])
        if mode == 'inner':
            h2, inner = inner_lists(cnt)
            exp = [[y for x in lst for y in inner[x]] for lst in inp]
            return akrun_check(h2 + ' '.join(ntoks[2 + cnt:]) + ' flatten 2', exp, '%s %s over lists::flatten(axis=2)' % (cls, inp))
        rows = [[[1000 * k + 10 * r + c for c in range((k + r) % 3)] for r in range(k % 2 + 1)] for k in range(cnt)]
        flat1 = [r for rr in rows for r in rr]
        vals = [x for r in flat1 for x in r]
        oi, acc = [0], 0
        for r in flat1:
            acc += len(r); oi.append(acc)
        oo, acc = [0], 0
        for rr in rows:
            acc += len(rr); oo.append(acc)
        h2 = 'i64 %s listoffset64 %s listoffset64 %s ' % (fullnative.ints(vals), fullnative.ints(oi), fullnative.ints(oo))
        exp = [[[x for r in rows[e] for x in r] for e in lst] for lst in inp]
        return akrun_check(h2 + ' '.join(ntoks[2 + cnt:]) + ' flatten 3', exp, '%s %s over lists of lists::flatten(axis=3)' % (cls, inp))
    return mdischarge(nc.m, '%s::offsets_and_flattened shape=%s %s off0=%d' % (cls, ','.join(map(str, dims)), mode, off0), obls, [], replay=replay,
                      prefer=[nc.lencontent <= 24] + [o <= 20 for o in offs],
                      extra=dict(bounds='shape %s concrete (case split); origins symbolic (concrete for mode inner); inner list lengths <= 2 (uninterpreted)' % (dims,)))


def jobs_flatten(tier):
    js = []
    shapes = [(2, 0, 1), (0,), (1, 2)] if tier == 'quick' else [l for n in (1, 2, 3) for l in itertools.product(range(3), repeat=n)]
    regs = [(2, 2), (0, 3)] if tier == 'quick' else [(s_, l_) for s_ in range(3) for l_ in range(3)]
    for cls in ('ListOffsetArray64', 'ListArray64', 'RegularArray'):
        for d in (regs if cls == 'RegularArray' else shapes):
            for mode in ('at', 'inner', 'deep'):
                for off0 in ((0, 1) if mode == 'inner' and cls != 'RegularArray' else (0,)):
                    js.append((h_list_flatten, (cls, d, mode, off0), 1800))
    return js


# ------------------------------------------------------------------------------------------------ C07: combinations at the list level
@guard
def h_combinations(cls, dims, n, replacement):
    """combinations(n, replacement) at the axis of this list node: per list exactly the itertools tuples, in order, as records of n fields"""
    import itertools as it
    lens0 = node_lens(cls, dims)
    comb = it.combinations_with_replacement if replacement else it.combinations
    ntup = sum(len(list(comb(range(L), n))) for L in lens0)
    nc = NodeCtx(['LOA', 'LA', 'RA', 'REC', 'IA', 'IDX', 'CNT', 'UTL', 'KD', 'IDS'], [], unwind=max(12, 2 * ntup + 2 * sum(lens0) + 3 * len(lens0) + 4 * n + 12))
    this, lists, starts, offs, short = list_node(nc, cls, dims)
    rl = nc.m.record('recordlookup', {0: (NULL, 8), 8: (NULL, 8)}, const=True)
    pc_ = {}
    nc.empty_map(pc_, 0, 'noparams')
    pm = nc.m.record('noparams', pc_, const=True)
    nc.m.record('ret', {})
    cands = [f for mod_ in nc.m.eng.mods for f in mod_.func_src if f.startswith('_ZNK7awkward%s12combinationsElb' % short)]
    if not cands:
        raise Unsupported('combinations of %s not found in the IR' % cls)
    out = nc.m.call(cands[0], [Ptr('ret', 0), this, BV(n), z3.BitVecVal(1 if replacement else 0, 1), rl, pm, BV(1), BV(0)])
    obls = [('combinations does not raise', out.raised)]
    want = [[list(t) for t in comb(lst, n)] for lst in lists]
    rcell = nc.m.cell('ret', 0)
    for g, res in (nodeh.decode_cases(nc, out.mem, rcell) if rcell is not None else []):
        if res is None:
            obls.append(('a result is returned', z3.And(g, z3.Not(out.raised))))
        else:
            obls += [(nm, z3.And(g, z3.Not(out.raised), c)) for nm, c in nodeh.compare_value(res, want)]

    def replay(model, ent):
        lc = model.eval(nc.lencontent, model_completion=True).as_signed_long()
        if lc > 100:
            return False, 'content too long to replay', {}
        head, inp = node_program(nc, model, lc)
        exp = [[{str(k): v for k, v in enumerate(t)} for t in comb(lst, n)] for lst in inp]
        return akrun_check(head + 'combinations %d %d 1' % (n, 1 if replacement else 0), exp, '%s %s::combinations(%d, replacement=%s)' % (cls, inp, n, replacement))
    return mdischarge(nc.m, '%s::combinations shape=%s n=%d replacement=%s' % (cls, ','.join(map(str, dims)), n, replacement), obls, [], replay=replay,
                      prefer=[nc.lencontent <= 24] + [o <= 20 for o in offs],
                      extra=dict(bounds='shape %s, n=%d concrete (case split); origins symbolic' % (dims, n)))


def jobs_combinations(tier):
    js = []
    shapes = [(3, 0, 2), (1,)] if tier == 'quick' else [l for k in (1, 2) for l in itertools.product(range(4), repeat=k)]
    regs = [(3, 2), (0, 2), (1, 1)] if tier == 'quick' else [(s_, l_) for s_ in range(4) for l_ in range(3)]
    for cls in ('ListOffsetArray64', 'ListArray64', 'RegularArray'):
        for d in (regs if cls == 'RegularArray' else shapes):
            for n in ((2, 3) if tier == 'quick' else (1, 2, 3)):
                for rep in (False, True):
                    js.append((h_combinations, (cls, d, n, rep), 1800))
    return js


# ------------------------------------------------------------------------------------------------ C03: reduce_next through an option node
@guard
def h_option_reduce(pattern, parents_c, positions, cls='IndexedOptionArray64', incoming=False):
    """reduce_next of an option-type node (IndexedOptionArray64 / ByteMaskedArray) at the leaf level: missing values are skipped - the content is
    handed exactly the valid entries in order, each with the parent (group) of its position; for position-returning reducers (argmin / argmax)
    shifts[k] = number of missing entries before valid entry k - plus, when an enclosing level already handed shifts in (incoming), the shift of
    that entry - so that positions can be reported counting everything that was skipped; the answer is returned unchanged"""
    pattern = tuple(map(bool, pattern))
    n = len(pattern)
    nc = NodeCtx(['IA', 'BMA', 'RA', 'LOA', 'IDX', 'CNT', 'UTL', 'KD', 'IDS'], [], unwind=max(12, 3 * n + 10))
    seen = []
    RED = z3.Function('RED', z3.BitVecSort(64), z3.BitVecSort(64))

    def s_reduce_next(eng, fr, ins, st, name, argv):
        sret, selfp, reducer, negaxis, starts, shifts, parents, outlength, mask, keepdims = argv
        nm, info = nc.content_info(selfp, st, eng)
        seen.append(dict(pc=st.pc, info=info, negaxis=negaxis, starts=starts, parents=nc.index_terms(st.mem, parents, 'parents')[0],
                         shifts=nc.index_terms(st.mem, shifts, 'shifts')[0], outlength=outlength))
        k = z3.BitVec('k!', 64)
        nc._ret(st, sret, nc.fresh_content(eng, st, outlength, z3.Lambda([k], RED(k)), derived='reduced'))
        return None
    nc.m.eng.stubs['vf$slot%d' % nc.slot('11reduce_nextERKNS_7ReducerEl')] = s_reduce_next
    nc.m.eng.stubs['vf$slot%d' % nc.slot('12branch_depthEv')] = lambda eng, fr, ins, st, name, argv: [z3.BitVecVal(0, 8), BV(1)]
    if cls == 'IndexedOptionArray64':
        this, idx = build_option64(nc, pattern)
    elif cls == 'IndexedArray64':
        assert not any(pattern)
        this, idx = build_option64(nc, pattern, option=False)
    else:
        this, _mk = build_bytemasked(nc, pattern, True)
        idx = [BV(i) for i in range(n)]
    # reducer test double: only returns_positions() is consulted
    from .mharness import module_of as _mo
    rslots, rn = nodeh.vtable_slots(_mo('src/libawkward/Reducer.cpp'), 'N7awkward13ReducerArgmaxE')
    kpos = [k for s_, k in rslots.items() if '17returns_positionsEv' in s_][0]
    nc.m.record('rvt', {8 * j: (Ptr(('func', 'vf$r%d' % j), 0), 8) for j in range(rn)}, const=True)
    nc.m.eng.stubs['vf$r%d' % kpos] = lambda eng, fr, ins, st, name, argv: z3.BitVecVal(1 if positions else 0, 1)
    reducer = nc.m.record('reducer', {0: (Ptr('rvt', 0), 8)}, const=True)
    G = max(parents_c) + 1 if parents_c else 1
    parr = z3.K(z3.BitVecSort(64), BV(0))
    for i, v in enumerate(parents_c):
        parr = z3.Store(parr, BV(i), BV(v))
    pdata = nc.m.array('parents0', ('i', 64), max(1, n), const=True, arr=parr)
    sdata = nc.m.array('starts0', ('i', 64), G, const=True, arr=z3.K(z3.BitVecSort(64), BV(0)))
    mk = lambda nm, data, ln: (lambda cells: (nc.index_cells(cells, 0, data, BV(0), BV(ln)), nc.m.record(nm, cells, const=True))[1])({})
    inc = None
    if incoming:
        shdata = nc.m.array('shifts0', ('i', 64), max(1, n), const=True)
        sa = z3.Array('shifts0', z3.BitVecSort(64), z3.BitVecSort(64))
        inc = [z3.Select(sa, BV(i)) for i in range(n)]
        for v in inc:
            nc.m.assume(v >= 0, v <= 1000)
    parents, starts, shifts = mk('parents', pdata, n), mk('starts', sdata, G), (mk('shifts', shdata, n) if incoming else mk('shifts', NULL, 0))
    nc.m.record('ret', {})
    entry = {'IndexedOptionArray64': '_ZNK7awkward14IndexedArrayOfIlLb1EE11reduce_nextERKNS_7ReducerEl', 'IndexedArray64': '_ZNK7awkward14IndexedArrayOfIlLb0EE11reduce_nextERKNS_7ReducerEl',
             'ByteMaskedArray': '_ZNK7awkward15ByteMaskedArray11reduce_nextERKNS_7ReducerEl'}[cls]
    cands = [f for mod_ in nc.m.eng.mods for f in mod_.func_src if f.startswith(entry)]
    out = nc.m.call(cands[0], [Ptr('ret', 0), this, reducer, BV(1), starts, shifts, parents, BV(G), z3.BitVecVal(0, 1), z3.BitVecVal(0, 1)])
    obls = [('reduce_next does not raise', out.raised), ('the content is asked', z3.Not(z3.Or([ob['pc'] for ob in seen] + [z3.BoolVal(False)])))]
    valid = [i for i, m_ in enumerate(pattern) if not m_]
    for ob in seen:
        g, info = ob['pc'], ob['info']
        obls.append(('the content handed over holds exactly the valid entries', z3.And(g, info['length'] != len(valid))))
        for k, i in enumerate(valid):
            obls.append(('entry %d handed over is valid entry %d (position %d)' % (k, k, i), z3.And(g, z3.Select(info['atoms'], BV(k)) != idx[i])))
        if len(ob['parents']) != len(valid):
            obls.append(('one parent per valid entry', g))
        else:
            for k, i in enumerate(valid):
                obls.append(('parent of valid entry %d is the group of its position' % k, z3.And(g, ob['parents'][k] != parents_c[i])))
        if cls == 'IndexedArray64' and not incoming:
            pass            # nothing is missing and nothing came in: no shifts are needed (an empty index stands for all zero)
        elif positions:
            if len(ob['shifts']) != len(valid):
                obls.append(('one shift per valid entry for a position-returning reducer', g))
            else:
                for k, i in enumerate(valid):
                    want_shift = BV(sum(1 for j in range(i) if pattern[j])) + (inc[i] if inc is not None else 0)
                    obls.append(('shift of valid entry %d counts the missing entries before it%s' % (k, ' on top of the shift that came in with it' if inc is not None else ''), z3.And(g, ob['shifts'][k] != want_shift)))
        else:
            obls.append(('no shifts for a value-returning reducer', z3.And(g, z3.BoolVal(len(ob['shifts']) != 0))))
        obls.append(('outlength and negaxis are passed on', z3.And(g, z3.Or(ob['outlength'] != G, ob['negaxis'] != 1))))
    for g, res in nodeh.decode_cases(nc, out.mem, nc.m.cell('ret', 0)):
        if res is None:
            obls.append(('a result is returned', z3.And(g, z3.Not(out.raised))))
        else:
            obls += [(nm, z3.And(g, c)) for nm, c in compare(value(res), [Elem(RED(BV(j))) for j in range(G)])]

    def replay(model, ent):
        iv = [model.eval(x, model_completion=True).as_signed_long() for x in idx]
        lc = max([model.eval(nc.lencontent, model_completion=True).as_signed_long(), 1] + [v + 1 for v in iv])
        if lc > 60 or parents_c != sorted(parents_c) or incoming or cls != 'IndexedOptionArray64':
            return False, 'not replayable through this driver (incoming shifts / masked classes have their own replay)', {}
        # groups as lists: ListOffsetArray64 over the option node, reduce along axis 1
        offs_, acc = [0], 0
        for gi in range(G):
            acc += sum(1 for p in parents_c if p == gi); offs_.append(acc)
        data = [(5 * k + 2) % 7 for k in range(lc)]
        vals = [None if v < 0 else data[v] for v in iv]
        groups = [vals[offs_[gi]:offs_[gi + 1]] for gi in range(G)]
        prog = 'i64 %s option64 %s listoffset64 %s reduce %s 1 0 0' % (fullnative.ints(data), fullnative.ints(iv), fullnative.ints(offs_), 'argmax' if positions else 'sum')
        if positions:
            exp = []
            for grp in groups:
                best, bp = None, -1
                for p_, x in enumerate(grp):
                    if x is not None and (best is None or x > best):
                        best, bp = x, p_
                exp.append(bp)
        else:
            exp = [sum(x for x in grp if x is not None) for grp in groups]
        return akrun_check(prog, exp, '%s(axis=1) over groups %s' % ('argmax' if positions else 'sum', groups))
    def replay_masked(model, ent):
        # a fixed witness: ragged rows [[4], [1, x, 2], [6, 3]] (x = 9, or None when the pattern has a missing entry) reduced across the rows:
        # the enclosing list hands shifts in (rows too short for a column), the option node must pass them on
        miss = any(pattern)
        node = ('bytemask %s 1 ' % fullnative.ints([1, 1, 0 if miss else 1, 1, 1, 1])) if cls == 'ByteMaskedArray' else ('%s %s ' % ('indexed64' if cls == 'IndexedArray64' else 'option64', fullnative.ints([0, 1, -1 if miss else 2, 3, 4, 5])))
        prog = 'i64 6 4 1 9 2 6 3 ' + node + 'listoffset64 4 0 1 4 6 reduce %s 0 0 0' % ('argmax' if positions else 'sum')
        if positions:
            exp = [2, 2, 1] if miss else [2, 1, 1]
        else:
            exp = [11, 3, 2] if miss else [11, 12, 2]
        return akrun_check(prog, exp, '%s(axis=0) of [[4], [1, %s, 2], [6, 3]] with a %s leaf' % ('argmax' if positions else 'sum', 'None' if miss else '9', cls))
    return mdischarge(nc.m, '%s::reduce_next pattern=%s parents=%s %s%s' % (cls, ''.join('N' if p else 'v' for p in pattern), parents_c, 'positions' if positions else 'values', ' with incoming shifts' if incoming else ''), obls, [],
                      replay=(replay if not incoming and cls == 'IndexedOptionArray64' else replay_masked), prefer=[nc.lencontent <= 8], extra=dict(bounds='%d entries, missing pattern and parents concrete (case split), index values symbolic' % n))


def jobs_option_reduce(tier):
    cases = [((0, 1, 0), [0, 0, 0]), ((1, 0, 0, 1), [0, 0, 1, 1]), ((0, 0), [0, 1]), ((1, 1), [0, 0])]
    if tier != 'quick':
        cases += [((0, 1, 0, 1, 0), [0, 0, 1, 1, 1]), ((1, 0, 1), [0, 1, 1]), ((0, 0, 0), [0, 0, 0])]
    js = [(h_option_reduce, (p, par, pos), 1800) for p, par in cases for pos in (False, True)]
    for p, par in cases[:3] + [((0, 0, 0), [0, 0, 1])]:
        for pos in (False, True):
            js.append((h_option_reduce, (p, par, pos, 'ByteMaskedArray'), 1800))
            js.append((h_option_reduce, (p, par, pos, 'ByteMaskedArray', True), 1800))
            js.append((h_option_reduce, (p, par, pos, 'IndexedOptionArray64', True), 1800))
    for p, par in [((0, 0, 0), [0, 0, 1]), ((0, 0), [0, 0])]:
        for pos in (False, True):
            for inc_ in (False, True):
                js.append((h_option_reduce, (p, par, pos, 'IndexedArray64', inc_), 1800))
    return js


# ------------------------------------------------------------------------------------------------ C08 / C12: NumpyArray::mergemany (rectilinear concatenation)
def build_numpy64(nc, name, shape):
    """contiguous int64 NumpyArray of the given shape over a symbolic buffer"""
    from .cpp01 import struct_of
    mod = module_of(SRC['NA'])
    fo, sz, al, fields = mod.types.struct_layout(struct_of(mod, '_ZNK7awkward10NumpyArray6lengthEv'))
    n = 1
    for s_ in shape:
        n *= s_
    data = nc.m.array(name + '_data', ('i', 64), max(1, n), const=True)
    a0 = z3.Array(name + '_data', z3.BitVecSort(64), z3.BitVecSort(64))
    strides, acc = [], 8
    for s_ in reversed(shape):
        strides.insert(0, acc); acc *= s_
    nc.m.record(name + '_shape', {8 * i: (BV(v), 8) for i, v in enumerate(shape)}, const=True)
    nc.m.record(name + '_strides', {8 * i: (BV(v), 8) for i, v in enumerate(strides)}, const=True)
    cells = nc.content_header(name, nc.vptr_of('N7awkward10NumpyArrayE', 'NA'))
    nb = 8 * len(shape)
    cells.update({fo[1]: (data, 8), fo[1] + 8: (NULL, 8), fo[2]: (BV(0, 32), 4),
                  fo[4]: (Ptr(name + '_shape', 0), 8), fo[4] + 8: (Ptr(name + '_shape', nb), 8), fo[4] + 16: (Ptr(name + '_shape', nb), 8),
                  fo[5]: (Ptr(name + '_strides', 0), 8), fo[5] + 8: (Ptr(name + '_strides', nb), 8), fo[5] + 16: (Ptr(name + '_strides', nb), 8),
                  fo[6]: (BV(0), 8), fo[7]: (BV(8), 8),
                  fo[8]: (Ptr(name, fo[8] + 16), 8), fo[8] + 8: (BV(1), 8), fo[8] + 16: (BV(ord('l'), 8), 1), fo[8] + 17: (BV(0, 8), 1),
                  fo[9]: (BV(5, 32), 4)})
    this = nc.m.record(name, cells, const=True)

    def nest(d, base):
        if d == len(shape) - 1:
            return [Elem(z3.Select(a0, BV(base + i))) for i in range(shape[d])]
        step = 1
        for s_ in shape[d + 1:]:
            step *= s_
        return [nest(d + 1, base + i * step) for i in range(shape[d])]
    return this, nest(0, 0), a0, n


@guard
def h_numpy_mergemany(shapes):
    """NumpyArray::mergemany of contiguous int64 arrays with equal inner shape (numpy.concatenate along axis 0): the result lists the rows of the
    first array, then of the others, every value unchanged, and every buffer access stays inside the buffers (the output buffer is sized for all
    the items, not only for the rows)"""
    nc = NodeCtx(['NA', 'IDX', 'CNT', 'UTL', 'KD', 'IDS', 'EA'], [], unwind=max(24, sum(s[0] for s in shapes) * 4 + 20))
    arrs = [build_numpy64(nc, 'np%d' % k, s) for k, s in enumerate(shapes)]
    cells = {}
    for i, (t, v, a0, n) in enumerate(arrs[1:]):
        cells[16 * i] = (t, 8); cells[16 * i + 8] = (NULL, 8)
    nc.m.record('othersbuf', cells, const=True)
    nb = 16 * (len(arrs) - 1)
    others = nc.m.record('others', {0: (Ptr('othersbuf', 0), 8), 8: (Ptr('othersbuf', nb), 8), 16: (Ptr('othersbuf', nb), 8)}, const=True)
    nc.m.record('ret', {})
    out = nc.m.call('_ZNK7awkward10NumpyArray9mergemanyERKSt6vectorISt10shared_ptrINS_7ContentEESaIS4_EE', [Ptr('ret', 0), arrs[0][0], others])
    obls = [('mergemany does not raise', out.raised)]
    want = [row for (t, v, a0, n) in arrs for row in v]
    rcell = nc.m.cell('ret', 0)
    for g, res in (nodeh.decode_cases(nc, out.mem, rcell) if rcell is not None else []):
        if res is None:
            obls.append(('a result is returned', z3.And(g, z3.Not(out.raised))))
        else:
            obls += [(nm, z3.And(g, z3.Not(out.raised), c)) for nm, c in nodeh.compare_value(res, want)]

    def replay(model, ent):
        prog, exp = '', []
        for k, ((t, v, a0, n), s) in enumerate(zip(arrs, shapes)):
            vals = [1000 * k + i for i in range(n)]          # contents do not steer control flow: distinct values show any mix-up
            prog += 'i64nd %d %s %s ' % (len(s), ' '.join(map(str, s)), ' '.join(map(str, vals)))

            def nest(d, base):
                if d == len(s) - 1:
                    return vals[base:base + s[d]]
                step = 1
                for x in s[d + 1:]:
                    step *= x
                return [nest(d + 1, base + i * step) for i in range(s[d])]
            exp += nest(0, 0)
        return akrun_check(prog + 'mergemany %d' % (len(shapes) - 1), exp, 'mergemany of int64 arrays of shapes %s' % (shapes,))
    return mdischarge(nc.m, 'NumpyArray::mergemany shapes=%s' % (shapes,), obls, [], replay=replay,
                      extra=dict(bounds='contiguous int64 arrays of shapes %s (concrete, case split), all values symbolic' % (shapes,)))


def jobs_numpy(tier):
    cases = [((3,), (2,)), ((2, 3), (1, 3)), ((0,), (2,)), ((1, 2), (0, 2), (2, 2)), ((2, 1, 2), (1, 1, 2))]
    if tier != 'quick':
        cases += [((2, 2), (2, 2), (1, 2)), ((1,), (1,), (1,)), ((3, 0), (1, 0))]
    return [(h_numpy_mergemany, (c,), 1800) for c in cases]


# ------------------------------------------------------------------------------------------------ C01: NumpyArray::getitem on strided views
@guard
def h_numpy_getitem(n, stride, offset, kind, k):
    """NumpyArray::getitem(Slice) on a one-dimensional int64 *view* (any byte offset and stride, as a[offset::stride] produces): an integer-array
    index selects view[i] = buffer[offset + stride * i] for each (wrapped) i, a range selects the CPython slice; out-of-range indexes raise"""
    from .cpp01 import struct_of
    from .c18 import slice_sel, KNONE
    nc = NodeCtx(['NA', 'IDX', 'CNT', 'UTL', 'KD', 'IDS', 'SLC', 'RA'], [], unwind=max(24, 4 * n + 4 * k + 20))
    mod = module_of(SRC['NA'])
    fo, sz, al, fields = mod.types.struct_layout(struct_of(mod, '_ZNK7awkward10NumpyArray6lengthEv'))
    buflen = offset + stride * max(n - 1, 0) + 1
    data = nc.m.array('npdata', ('i', 64), buflen, const=True)
    a0 = z3.Array('npdata', z3.BitVecSort(64), z3.BitVecSort(64))
    view = [z3.Select(a0, BV(offset + stride * i)) for i in range(n)]
    nc.m.record('np_shape', {0: (BV(n), 8)}, const=True)
    nc.m.record('np_strides', {0: (BV(8 * stride), 8)}, const=True)
    cells = nc.content_header('np', nc.vptr_of('N7awkward10NumpyArrayE', 'NA'))
    cells.update({fo[1]: (data, 8), fo[1] + 8: (NULL, 8), fo[2]: (BV(0, 32), 4),
                  fo[4]: (Ptr('np_shape', 0), 8), fo[4] + 8: (Ptr('np_shape', 8), 8), fo[4] + 16: (Ptr('np_shape', 8), 8),
                  fo[5]: (Ptr('np_strides', 0), 8), fo[5] + 8: (Ptr('np_strides', 8), 8), fo[5] + 16: (Ptr('np_strides', 8), 8),
                  fo[6]: (BV(8 * offset), 8), fo[7]: (BV(8), 8),
                  fo[8]: (Ptr('np', fo[8] + 16), 8), fo[8] + 8: (BV(1), 8), fo[8] + 16: (BV(ord('l'), 8), 1), fo[8] + 17: (BV(0, 8), 1), fo[9]: (BV(5, 32), 4)})
    this = nc.m.record('np', cells, const=True)
    if kind == 'array':
        sdata = nc.m.array('slicedata', ('i', 64), max(1, k), const=True)
        s0 = z3.Array('slicedata', z3.BitVecSort(64), z3.BitVecSort(64))
        iv = [z3.Select(s0, BV(j)) for j in range(k)]
        nc.m.record('sliceshape', {0: (BV(k), 8)}, const=True)
        nc.m.record('slicestrides', {0: (BV(1), 8)}, const=True)
        ic = {0: (nc.vptr_of('N7awkward12SliceArrayOfIlEE', 'SLC'), 8)}
        nc.index_cells(ic, 8, sdata, BV(0), BV(k))
        ic.update({64: (Ptr('sliceshape', 0), 8), 72: (Ptr('sliceshape', 8), 8), 80: (Ptr('sliceshape', 8), 8),
                   88: (Ptr('slicestrides', 0), 8), 96: (Ptr('slicestrides', 8), 8), 104: (Ptr('slicestrides', 8), 8), 112: (BV(0, 8), 1)})
        item = nc.m.record('sliceitem', ic, const=True)
    else:
        a, b = nc.m.bv('start'), nc.m.bv('stop')
        item = nc.m.record('sliceitem', {0: (nc.vptr_of('N7awkward10SliceRangeE', 'SLC'), 8), 8: (a, 8), 16: (b, 8), 24: (BV(k), 8)}, const=True)
    nc.m.record('slicebuf', {0: (item, 8), 8: (NULL, 8)}, const=True)
    sl = nc.m.record('slice', {0: (Ptr('slicebuf', 0), 8), 8: (Ptr('slicebuf', 16), 8), 16: (Ptr('slicebuf', 16), 8), 24: (BV(1, 8), 1)}, const=True)
    nc.m.record('ret', {})
    out = nc.m.call('_ZNK7awkward10NumpyArray7getitemERKNS_5SliceE', [Ptr('ret', 0), this, sl])
    rcell = nc.m.cell('ret', 0)
    if kind == 'array':
        regs = [z3.If(v < 0, v + n, v) for v in iv]
        inr = z3.And([z3.And(r >= 0, r < n) for r in regs] + [z3.BoolVal(True)])
        obls = [('raises exactly when an index is out of range', z3.simplify(out.raised) != z3.Not(inr))]
        want = []
        for r in regs:
            val = BV(-9)
            for i in range(n):
                val = z3.If(r == i, view[i], val)
            want.append(Elem(val))
        okp = z3.And(inr, z3.Not(out.raised))
        for g, res in (nodeh.decode_cases(nc, out.mem, rcell) if rcell is not None else []):
            if res is not None:
                obls += [(nm, z3.And(g, okp, c)) for nm, c in nodeh.compare_value(res, want)]
    else:
        obls = [('a range never raises', out.raised)]
        first, cnt = slice_sel(BV(n), a, b, k)
        p = z3.BitVec('p!pos', 64)
        for g, q in (nodeh.ptr_cases(rcell) if rcell is not None else []):
            if q.obj is None:
                obls.append(('a result is returned', z3.And(g, z3.Not(out.raised))))
                continue
            # a range slice of a NumpyArray is again a view: shape / strides / byteoffset are symbolic -> read them instead of decoding values
            o = out.mem.o[q.obj]
            shp = nodeh._vec_terms(out.mem, o, q.off + fo[4], 'shape')
            stp = nodeh._vec_terms(out.mem, o, q.off + fo[5], 'strides')
            bo = o.cells[q.off + fo[6]][0]
            if len(shp) != 1:
                obls.append(('the result is one-dimensional', g)); continue
            obls.append(('the range keeps len(range(*slice.indices(n))) items', z3.And(g, shp[0] != cnt)))
            pos = first + p * k
            byte = bo + p * stp[0]
            obls.append(('item p of the result is view[first + p * step]', z3.And(g, p >= 0, p < cnt, byte != 8 * (offset + stride * pos))))
        okp = z3.Not(out.raised)

    def replay(model, ent):
        ev = lambda t: model.eval(t, model_completion=True).as_signed_long()
        buf = [100 + i for i in range(buflen)]          # buffer contents do not steer control flow: distinct values show any mix-up
        vw = [buf[offset + stride * i] for i in range(n)]
        base = 'i64 %s ' % fullnative.ints(buf)
        mk = base + 'getitem 1 range %d %s %d ' % (offset, 'NONE', stride) if (offset or stride != 1) else base
        # the view a[offset::stride] restricted to n items
        mk += 'getitem 1 range 0 %d 1 ' % n
        tok = lambda v: 'NONE' if v == KNONE else str(v)
        if kind == 'array':
            vals = [ev(v) for v in iv]
            prog = mk + 'getitem 1 array %s' % fullnative.ints(vals)
            try:
                exp = [vw[v] for v in vals]
            except IndexError:
                exp = None
            kind_, got = fullnative.akrun(prog)
            payload = dict(program=prog, native=[kind_, got], expected=exp)
            if exp is None:
                return (kind_ != 'ERR'), 'view %s[%s]: out of range; native library %s %s' % (vw, vals, kind_, str(got)[:100]), payload
            if kind_ != 'OK' or got != exp:
                return True, 'int64 buffer %s viewed as [%d::%d][:%d] = %s, indexed by %s: native library %s %s, NumPy gives %s' % (buf, offset, stride, n, vw, vals, kind_, str(got)[:120], exp), payload
            # the slice belongs to the caller: used once more on an array of another length it selects by the same (unmodified) positions
            second = [900 + i for i in range(n + 2)]
            try:
                exp2 = [second[v] for v in vals]
            except IndexError:
                exp2 = None
            if exp2 is not None:
                prog2 = mk + 'i64 %s getitem2 1 array %s' % (fullnative.ints(second), fullnative.ints(vals))
                kind2, got2 = fullnative.akrun(prog2)
                payload['second'] = dict(program=prog2, native=[kind2, got2], expected=exp2)
                if kind2 != 'OK' or got2 != exp2:
                    return True, 'the slice [%s] applied to the view %s and then again to %s: the second answer is %s %s instead of %s (the slice was modified by its first use)' % (vals, vw, second, kind2, str(got2)[:100], exp2), payload
            return False, 'native library agrees (%s)' % got, payload
        A, B = ev(a), ev(b)
        pyv = lambda v: None if v == KNONE else v
        return akrun_check(mk + 'getitem 1 range %s %s %d' % (tok(A), tok(B), k), vw[slice(pyv(A), pyv(B), k)], 'view %s [%s:%s:%d]' % (vw, tok(A), tok(B), k))
    small = lambda v: z3.Or(v == KNONE, z3.And(v >= -6, v <= 6))
    return mdischarge(nc.m, 'NumpyArray::getitem view n=%d stride=%d offset=%d %s %d' % (n, stride, offset, kind, k), obls, [], replay=replay,
                      prefer=([z3.And(v >= -6, v <= 6) for v in iv] if kind == 'array' else [small(a), small(b)]),
                      extra=dict(bounds='view of %d items, stride %d, offset %d (concrete); index values / start, stop symbolic; buffer contents symbolic' % (n, stride, offset)))


def jobs_numpy_getitem(tier):
    js = []
    views = [(3, 1, 0), (3, 2, 1), (2, 3, 2)] if tier == 'quick' else [(n, s, o) for n in (0, 1, 3) for s in (1, 2, 3) for o in (0, 1)]
    for n, s, o in views:
        for k in (1, 2):
            js.append((h_numpy_getitem, (n, s, o, 'array', k), 1800))
        for step in ((1, -1, 2) if tier == 'quick' else (1, 2, 3, -1, -2)):
            js.append((h_numpy_getitem, (n, s, o, 'range', step), 1800))
    return js


# ------------------------------------------------------------------------------------------------ C08: simplify_uniontype (union of union)
def build_union8_64(nc, tags_c, contents, name, index_bound, width='64'):
    """UnionArray8_<width> with concrete tags, symbolic index (entry i < index_bound[tag]) over the given content pointers"""
    T, bits, uns = WIDTHS[width]
    n = len(tags_c)
    fo, sz, al, fields = nc.layout_of('UNI', '_ZNK7awkward12UnionArrayOfIa%sE6lengthEv' % T)
    tarr = z3.K(z3.BitVecSort(64), BV(0, 8))
    for i, t in enumerate(tags_c):
        tarr = z3.Store(tarr, BV(i), BV(t, 8))
    tdata = nc.m.array(name + '_tags', ('i', 8), max(1, n), const=True, arr=tarr)
    idata = nc.m.array(name + '_index', ('i', bits), max(1, n), const=True)
    a0 = z3.Array(name + '_index', z3.BitVecSort(64), z3.BitVecSort(bits))
    raw = [z3.Select(a0, BV(i)) for i in range(n)]
    idx = [r if bits == 64 else (z3.ZeroExt(64 - bits, r) if uns else z3.SignExt(64 - bits, r)) for r in raw]
    for i, t in enumerate(tags_c):
        nc.m.assume(idx[i] >= 0, idx[i] < index_bound[t])
    cells = nc.content_header(name, nc.vptr_of('N7awkward12UnionArrayOfIa%sEE' % T, 'UNI'))
    nc.index_cells(cells, fo[1], tdata, BV(0), BV(n), mangled_T='a')
    nc.index_cells(cells, fo[2], idata, BV(0), BV(n), mangled_T=T)
    bufc = {}
    for i, cp in enumerate(contents):
        bufc[16 * i] = (cp, 8); bufc[16 * i + 8] = (NULL, 8)
    nc.m.record(name + '_contents', bufc, const=True)
    nb = 16 * len(contents)
    cells.update({fo[3]: (Ptr(name + '_contents', 0), 8), fo[3] + 8: (Ptr(name + '_contents', nb), 8), fo[3] + 16: (Ptr(name + '_contents', nb), 8)})
    return nc.m.record(name, cells, const=True), idx


@guard
def h_union_simplify(outer_tags, inner_tags, mergeable_pairs, outer_w='64', inner_w='64'):
    """simplify_uniontype of a union whose content 1 is itself a union: the nesting is removed and mergeable contents are merged, and every element is
    still the same element of the same original content.  Contents: 0 = A (outer), inner union holds B and C; mergeable_pairs: which of B, C merge into A"""
    nc = NodeCtx(['UNI', 'IA', 'IDX', 'CNT', 'UTL', 'KD', 'IDS', 'EA'], [], unwind=max(14, 3 * (len(outer_tags) + len(inner_tags)) + 12))
    BASE = 1 << 32
    kk = z3.BitVec('k!', 64)
    lens = [nc.lencontent, nc.m.bv('lencontentB'), nc.m.bv('lencontentC')]
    names = ['content0', 'content_B', 'content_C']
    ptrs = [nc.content0]
    for k in (1, 2):
        nc.m.assume(lens[k] >= 1, lens[k] <= 2 ** 20)
        ptrs.append(nc.new_content_in(nc.m.mem, names[k], lens[k], z3.Lambda([kk], kk + k * BASE), const=True))
    nc.m.assume(nc.lencontent >= 1, nc.lencontent <= 2 ** 20)
    fam = {'content0': 'A', 'content_B': 'B' if 'B' not in mergeable_pairs else 'A', 'content_C': 'C' if 'C' not in mergeable_pairs else 'A'}

    def family(info_name, eng, st, p):
        # a merged content keeps the family of its first part
        nm, info = nc.content_info(p, st, eng)
        return info.get('family') or fam.get(nm, nm)

    def s_mergeable(eng, fr, ins, st, name, argv):
        selfp, otherref = argv[0], argv[1]
        other = eng.load(st, otherref, '%"class.awkward::Content"*', fr.mod, 'stub')
        a, b = family(None, eng, st, selfp), family(None, eng, st, other)
        return z3.BitVecVal(1 if a == b else 0, 1)
    nc.m.eng.stubs['vf$slot%d' % nc.slot('9mergeableERKSt10shared_ptr')] = s_mergeable
    # merge(other) = Content::merge -> mergemany({other}) on the opaque receiver: concatenation of atoms (same stub as for indexed mergemany)
    def s_content_mergemany(eng, fr, ins, st, name, argv):
        sret, selfp, vec = argv
        first, finfo = nc.content_info(selfp, st, eng)
        o = st.mem.o[vec.obj]
        b, e = o.cells[vec.off][0], o.cells[vec.off + 8][0]
        qb = [q for g, q in nodeh.ptr_cases(b) if q.obj is not None][0]
        qe = [q for g, q in nodeh.ptr_cases(e) if q.obj is not None][0]
        buf = st.mem.o[qb.obj]
        parts = [finfo]
        for i in range((qe.off - qb.off) // 16):
            parts.append(nc.content_info(buf.cells[qb.off + 16 * i][0], st, eng)[1])
        total, body, cum = BV(0), BV(-7), []
        for info in parts:
            cum.append(total); total = total + info['length']
        for info, c0 in zip(parts, cum):
            body = z3.If(kk >= c0, z3.Select(info['atoms'], kk - c0), body)
        p = nc.fresh_content(eng, st, z3.simplify(total), z3.Lambda([kk], body), derived='merged')
        nc.contents[p.obj]['family'] = finfo.get('family') or fam.get(first, first)
        nc._ret(st, sret, p)
        return None
    nc.m.eng.stubs['vf$slot%d' % nc.slot('9mergemanyERKSt6vector')] = s_content_mergemany
    inner, iidx = build_union8_64(nc, inner_tags, [ptrs[1], ptrs[2]], 'inner', [lens[1], lens[2]], width=inner_w)
    this, oidx = build_union8_64(nc, outer_tags, [ptrs[0], inner], 'node', [lens[0], BV(len(inner_tags))], width=outer_w)
    nc.m.record('ret', {})
    out = nc.m.call('_ZNK7awkward12UnionArrayOfIa%sE18simplify_uniontypeEbb' % WIDTHS[outer_w][0], [Ptr('ret', 0), this, z3.BitVecVal(1, 1), z3.BitVecVal(0, 1)])
    obls = [('simplify_uniontype does not raise', out.raised)]
    want = []
    for i, t in enumerate(outer_tags):
        if t == 0:
            want.append(Elem(oidx[i]))
        else:
            val = BV(-9)
            for j, it in enumerate(inner_tags):
                val = z3.If(oidx[i] == j, iidx[j] + (1 + it) * BASE, val)
            want.append(Elem(val))
    rcell = nc.m.cell('ret', 0)
    for g, res in (nodeh.decode_cases(nc, out.mem, rcell) if rcell is not None else []):
        if res is None:
            obls.append(('a result is returned', z3.And(g, z3.Not(out.raised))))
            continue
        obls += [(nm, z3.And(g, z3.Not(out.raised), c)) for nm, c in nodeh.compare_value(res, want)]
        if res['cls'] == 'union':
            for cd in res['contents']:
                if cd['cls'] == 'union':
                    obls.append(('no union remains directly inside the union', g))
            for i, (tg, ix) in enumerate(zip(res['tags'], res['index'])):
                obls.append(('result tag %d names one of the result contents' % i, z3.And(g, z3.Or(tg < 0, tg >= len(res['contents'])))))
                for t, cd in enumerate(res['contents']):
                    if cd['cls'] == 'opaque':
                        obls.append(('result index %d stays inside the content it points into' % i, z3.And(g, tg == t, z3.Or(ix < 0, ix >= cd['length']))))
    def replay(model, ent):
        ev = lambda t: model.eval(t, model_completion=True).as_signed_long()
        la, lb, lcc = [max(1, min(ev(x), 40)) for x in lens]
        ov, iv = [ev(x) for x in oidx], [ev(x) for x in iidx]
        if max(ov + iv + [0]) >= 40:
            return False, 'indexes too large to replay', {}
        la, lb, lcc = max([la] + [v + 1 for v, t in zip(ov, outer_tags) if t == 0]), max([lb] + [v + 1 for v, t in zip(iv, inner_tags) if t == 0]), max([lcc] + [v + 1 for v, t in zip(iv, inner_tags) if t == 1])
        A = list(range(0, la))
        # real contents: A is int64; a content that merges into A is int64 too, one that does not is a list of one int / a bool array
        def mk(kind, n, base):
            if kind == 'int':
                return 'i64 %s ' % fullnative.ints(range(base, base + n)), list(range(base, base + n))
            if kind == 'list':
                return 'i64 %s regular 1 %d ' % (fullnative.ints(range(base, base + n)), n), [[x] for x in range(base, base + n)]
            return 'f64 %s regular 2 0 ' % fullnative.ints([float(x) for x in range(base, base + 2 * n)]) if False else ('i64 %s regular 2 %d ' % (fullnative.ints(range(base, base + 2 * n)), n)), [[base + 2 * i, base + 2 * i + 1] for i in range(n)]
        kb = 'int' if 'B' in mergeable_pairs else 'list'
        kc = 'int' if 'C' in mergeable_pairs else ('pair' if kb == 'list' else 'list')
        pa, va = mk('int', la, 0)
        pb, vb = mk(kb, lb, 1000)
        pc2, vc = mk(kc, lcc, 2000)
        inner_prog = pb + pc2 + 'union8_%s %d %s %s 2 ' % (inner_w, len(inner_tags), ' '.join(map(str, inner_tags)), ' '.join(map(str, iv)))
        prog = pa + inner_prog + 'union8_%s %d %s %s 2 simplify' % (outer_w, len(outer_tags), ' '.join(map(str, outer_tags)), ' '.join(map(str, ov)))
        inner_val = [(vb if t == 0 else vc)[j] for t, j in zip(inner_tags, iv)]
        exp = [va[j] if t == 0 else inner_val[j] for t, j in zip(outer_tags, ov)]
        return akrun_check(prog, exp, 'union(tags=%s, index=%s) over [ints, union(tags=%s, index=%s)] simplified' % (list(outer_tags), ov, list(inner_tags), iv))
    return mdischarge(nc.m, 'UnionArray8_%s::simplify_uniontype outer=%s inner(8_%s)=%s merges=%s' % (outer_w, ''.join(map(str, outer_tags)), inner_w, ''.join(map(str, inner_tags)), ''.join(mergeable_pairs) or '-'), obls, [], replay=replay,
                      prefer=[l <= 4 for l in lens],
                      extra=dict(bounds='tags concrete (case split), union indexes and content lengths symbolic; mergeability table concrete'))


def jobs_union(tier):
    js = []
    outs = [(0, 1, 1), (1, 0, 1, 1)] if tier == 'quick' else [t for n in (2, 3, 4) for t in itertools.product((0, 1), repeat=n) if 1 in t]
    ins = [(0, 1), (1, 0, 0)] if tier == 'quick' else [t for n in (1, 2, 3) for t in itertools.product((0, 1), repeat=n)]
    for o in outs:
        for i in ins:
            for mp in ((), ('B',), ('C',)):
                js.append((h_union_simplify, (o, i, mp), 1800))
    # the nine (outer width, inner width) template combinations each have their own simplify kernel
    combos = [(a, b) for a in ('64', '32', 'U32') for b in ('64', '32', 'U32') if (a, b) != ('64', '64')]
    for k, (a, b) in enumerate(combos):
        for o in (outs[:1] if tier == 'quick' else outs[:3]):
            for i in (ins[:1] if tier == 'quick' else ins[:2]):
                for mp in (((), ('B',))[k % 2:k % 2 + 1] if tier == 'quick' else ((), ('B',), ('C',))):
                    js.append((h_union_simplify, (o, i, mp, a, b), 1800))
    return js


# ------------------------------------------------------------------------------------------------ C17: depth and regularity queries follow the node structure
DEPTH_NODES = [('ListOffsetArray64', (1, 1), None, True), ('ListArray64', (1,), None, True), ('RegularArray', (2, 2), None, True),
               ('IndexedOptionArray64', (0, 1), None, False), ('IndexedArray64', (0, 0), None, False), ('ByteMaskedArray', (0, 1), True, False), ('UnmaskedArray', (0, 0), None, False)]


@guard
def h_depth_queries(cls, dims, variant, is_list):
    """purelist_depth / minmax_depth / branch_depth / numfields of a node over a content of any depth: a list node is one level deeper than its
    content, an option or indexed node exactly as deep; field counts pass through"""
    nc = NodeCtx(['LOA', 'LA', 'RA', 'IA', 'BMA', 'UMA', 'IDX', 'CNT', 'UTL', 'KD', 'IDS'], [], unwind=10)
    d, dmin, dmax, bflag, bdepth, nf = [nc.m.bv(x) for x in ('depth', 'mindepth', 'maxdepth', 'branches', 'branchdepth', 'numfields')]
    reg = z3.Bool('content_isregular')
    nc.m.assume(d >= 1, d <= 100, dmin >= 1, dmin <= dmax, dmax <= 100, bdepth >= 1, bdepth <= 100, z3.Or(bflag == 0, bflag == 1), nf >= -1, nf <= 100)
    S = nc.slot
    nc.m.eng.stubs['vf$slot%d' % S('14purelist_depthEv')] = lambda eng, fr, ins, st, name, argv: d
    nc.m.eng.stubs['vf$slot%d' % S('12minmax_depthEv')] = lambda eng, fr, ins, st, name, argv: [dmin, dmax]
    nc.m.eng.stubs['vf$slot%d' % S('12branch_depthEv')] = lambda eng, fr, ins, st, name, argv: [z3.Extract(7, 0, bflag), bdepth]
    nc.m.eng.stubs['vf$slot%d' % S('9numfieldsEv')] = lambda eng, fr, ins, st, name, argv: nf
    this, vals, short, rp = generic_node(nc, cls, dims, variant)
    inc = 1 if is_list else 0
    obls = []

    def call(sym):
        cands = [f for mod_ in nc.m.eng.mods for f in mod_.func_src if f.startswith('_ZNK7awkward%s%s' % (short, sym))]
        if not cands:
            raise Unsupported('%s of %s not found' % (sym, cls))
        return nc.m.call(cands[0], [this])
    o1 = call('14purelist_depthEv')
    obls.append(('purelist_depth is the content depth%s' % (' + 1' if inc else ''), z3.Or(o1.raised, o1.ret != d + inc)))
    o2 = call('12minmax_depthEv')
    obls.append(('minmax_depth shifts both bounds by %d' % inc, z3.Or(o2.raised, o2.ret[0] != dmin + inc, o2.ret[1] != dmax + inc)))
    o3 = call('12branch_depthEv')
    b0 = o3.ret[0]
    obls.append(('branch_depth keeps the branching flag and shifts the depth by %d' % inc, z3.Or(o3.raised, (z3.Extract(0, 0, b0) if b0.size() > 1 else b0) != z3.Extract(0, 0, bflag), o3.ret[1] != bdepth + inc)))
    o5 = call('9numfieldsEv')
    obls.append(('numfields passes through', z3.Or(o5.raised, o5.ret != nf)))
    def replay(model, ent):
        ev = lambda t: model.eval(t, model_completion=True).as_signed_long()
        D = ev(d)
        if not (ev(dmin) == D and ev(dmax) == D and ev(bflag) == 0 and ev(bdepth) == D and ev(nf) == -1 and 1 <= D <= 3):
            return False, 'content depths not realisable by a plain nested list (replay needs min = max = branch depth <= 3, no fields)', {}
        lc = max(model.eval(nc.lencontent, model_completion=True).as_signed_long(), 4)
        if lc > 60:
            return False, 'content too long to replay', {}
        head, inp = rp(model, lc)
        toks = head.split()
        cnt = int(toks[1])
        leaf = 'i64 %s ' % fullnative.ints(range(cnt * (2 ** (D - 1))))
        for lvl in range(D - 1):
            leaf += 'regular 2 %d ' % (cnt * (2 ** (D - 2 - lvl)))
        prog = leaf + ' '.join(toks[2 + cnt:]) + ' depths'
        want = [D + inc, D + inc, D + inc, 0, D + inc, -1]
        return akrun_check(prog, want, '%s over a content of depth %d: [purelist_depth, min, max, branches, branch depth, numfields]' % (cls, D))
    return mdischarge(nc.m, '%s depth / field-count queries' % cls, obls, [], replay=replay, prefer=[d <= 2, dmin == d, dmax == d, bflag == 0, bdepth == d, nf == -1, nc.lencontent <= 8],
                      extra=dict(bounds='content depth, min/max depth, branch depth <= 100, any branching flag, regularity and field count symbolic'))


def jobs_c17(tier):
    return [(h_depth_queries, a, 300) for a in DEPTH_NODES]


# ------------------------------------------------------------------------------------------------ C01: a slice item passing through an option / indexed node
@guard
def h_option_getitem(cls, pattern, variant, headkind):
    """getitem_next(head, tail, advanced) on an option-type or indexed node: the node does not consume the slice item - the content of the valid
    entries is handed the same item, and the result keeps None exactly at the missing positions, every valid position i holding what the
    content answered for its own element"""
    pattern = tuple(map(bool, pattern))
    n = len(pattern)
    nc = NodeCtx(['IA', 'BMA', 'BIT', 'UMA', 'IDX', 'CNT', 'UTL', 'KD', 'IDS', 'SLC'], [], unwind=max(10, 2 * n + 10))
    F = z3.Function('F_getitem', z3.BitVecSort(64), z3.BitVecSort(64))
    seen = []

    def s_getitem_next(eng, fr, ins, st, name, argv):
        sret, selfp, head = argv[0], argv[1], argv[2]
        hp = st.mem.o[head.obj].cells.get(head.off)
        nm, info = nc.content_info(selfp, st, eng)
        seen.append((st.pc, hp[0] if hp else None, argv[3], argv[4]))
        k = z3.BitVec('k!', 64)
        nc._ret(st, sret, nc.fresh_content(eng, st, info['length'], z3.Lambda([k], F(z3.Select(info['atoms'], k))), derived='getitem'))
        return None
    nc.m.eng.stubs['vf$slot%d' % nc.slot('12getitem_nextERKSt10shared_ptrINS_9SliceItemEERKNS_5SliceERKNS_7IndexOfIlEE')] = s_getitem_next
    if cls in ('IndexedOptionArray64', 'IndexedArray64'):
        this, idx = build_indexed(nc, cls, pattern, nc.content0, nc.lencontent, 'node')
        atom = lambda i: idx[i]
        short = INDEXED[cls][0][1:-1] if False else ('14IndexedArrayOfIlLb%dEE' % (1 if cls == 'IndexedOptionArray64' else 0))
    elif cls == 'ByteMaskedArray':
        this, mk = build_bytemasked(nc, pattern, variant)
        atom = lambda i: BV(i)
        short = '15ByteMaskedArray'
    elif cls == 'BitMaskedArray':
        this, a0 = build_bitmasked(nc, pattern, variant[0], variant[1])
        atom = lambda i: BV(i)
        short = '14BitMaskedArray'
    else:
        this, vals = build_unmasked(nc, n)
        atom = lambda i: BV(i)
        short = '13UnmaskedArray'
    tail, adv = empty_tail_and_advanced(nc)
    advv = None
    if headkind == 'array_adv':
        # the second of two index arrays: item = an integer array of n entries; `advanced` pairs entry i of this node with position advanced[i] of it
        item = _slice_item(nc, 0, 'array1')
        ad = nc.m.array('advdata', ('i', 64), max(1, n), const=True)
        a_ = z3.Array('advdata', z3.BitVecSort(64), z3.BitVecSort(64))
        advv = [z3.Select(a_, BV(i)) for i in range(n)]
        for v in advv:
            nc.m.assume(v >= 0, v < 2)
        cells_ = {}
        nc.index_cells(cells_, 0, ad, BV(0), BV(n))
        cells_[48] = (BV(0, 8), 1)
        adv = nc.m.record('advanced_pairing', cells_, const=True)
    elif headkind == 'at':
        item = nc.m.record('sliceitem', {0: (nc.vptr_of('N7awkward7SliceAtE', 'SLC'), 8), 8: (nc.m.bv('at'), 8)}, const=True)
    else:
        item = nc.m.record('sliceitem', {0: (nc.vptr_of('N7awkward10SliceRangeE', 'SLC'), 8), 8: (nc.m.bv('start'), 8), 16: (nc.m.bv('stop'), 8), 24: (BV(1), 8)}, const=True)
    head = nc.m.record('headptr', {0: (item, 8), 8: (NULL, 8)}, const=True)
    nc.m.record('ret', {})
    out = nc.m.call('_ZNK7awkward%s12getitem_nextERKSt10shared_ptrINS_9SliceItemEERKNS_5SliceERKNS_7IndexOfIlEE' % short, [Ptr('ret', 0), this, head, tail, adv])
    obls = [('passing a slice item through does not raise', out.raised), ('the content is asked', z3.Not(z3.Or([pc for pc, h, t, a in seen] + [z3.BoolVal(False)])))]
    itemname = 'it0' if headkind == 'array_adv' else 'sliceitem'
    valid_pos = [i for i in range(n) if not pattern[i]]
    for pc, h, t, a in seen:
        same = z3.Or([g for g, q in nodeh.ptr_cases(h) if q.obj == itemname] + [z3.BoolVal(False)]) if h is not None else z3.BoolVal(False)
        obls.append(('the content receives the very same slice item', z3.And(pc, z3.Not(same))))
        if advv is not None:
            # the content holds only the valid entries: the pairing handed on must be that of those entries, in order
            try:
                got_adv = nc.index_terms(out.mem if False else nc.m.mem, a, 'advanced handed on')[0]
            except (Unsupported, KeyError):
                got_adv = None
            if got_adv is None or len(got_adv) != len(valid_pos):
                obls.append(('the pairing handed on has one position per valid entry (%s handed on, %d valid)' % ('?' if got_adv is None else len(got_adv), len(valid_pos)), pc))
            else:
                for k, i in enumerate(valid_pos):
                    obls.append(('pairing of valid entry %d (entry %d of the node) is handed on with it' % (k, i), z3.And(pc, got_adv[k] != advv[i])))
    want = [NONE if pattern[i] else Elem(F(atom(i))) for i in range(n)]
    rcell = nc.m.cell('ret', 0)
    for g, res in (nodeh.decode_cases(nc, out.mem, rcell) if rcell is not None else []):
        if res is None:
            obls.append(('a result is returned', z3.And(g, z3.Not(out.raised))))
        else:
            obls += [(nm, z3.And(g, z3.Not(out.raised), c)) for nm, c in nodeh.compare_value(res, want)]
    def replay(model, ent):
        ev = lambda t: model.eval(t, model_completion=True).as_signed_long()
        if cls in ('IndexedOptionArray64', 'IndexedArray64'):
            iv = [ev(x) for x in idx]
            node = '%s %s ' % ('option64' if cls == 'IndexedOptionArray64' else 'indexed64', fullnative.ints(iv))
        elif cls == 'ByteMaskedArray':
            iv = [(-1 if pattern[i] else i) for i in range(n)]
            node = 'bytemask %s %d ' % (fullnative.ints([ev(x) for x in mk]), 1 if variant else 0)
        elif cls == 'BitMaskedArray':
            iv = [(-1 if pattern[i] else i) for i in range(n)]
            nbytes = (n + 7) // 8 or 1
            node = 'bitmask %s %d %d %d ' % (fullnative.ints([model.eval(z3.Select(a0, BV(k_)), model_completion=True).as_long() for k_ in range(nbytes)]), 1 if variant[0] else 0, n, 1 if variant[1] else 0)
        else:
            iv = list(range(n))
            node = 'unmasked '
        lc = max([ev(nc.lencontent), n, 1] + [v + 1 for v in iv])
        if lc > 60:
            return False, 'content too long to replay', {}
        # content: lc lists of two items each
        head_ = 'i64 %s regular 2 %d ' % (fullnative.ints(range(2 * lc)), lc)
        inner = [[2 * k_, 2 * k_ + 1] for k_ in range(lc)]
        if headkind == 'array_adv':
            cols = [i % 2 for i in range(n)]
            prog = head_ + node + 'getitem 2 array %s array %s' % (fullnative.ints(range(n)), fullnative.ints(cols))
            exp = [None if v < 0 else inner[v][cols[i]] for i, v in enumerate(iv)]
            return akrun_check(prog, exp, '%s (valid entries -> content %s) sliced [[0..n-1], %s]' % (cls, iv, cols))
        if headkind == 'at':
            prog, exp = head_ + node + 'getitem 2 range NONE NONE NONE at 1', [None if v < 0 else inner[v][1] for v in iv]
        else:
            prog, exp = head_ + node + 'getitem 2 range NONE NONE NONE range 1 NONE 1', [None if v < 0 else inner[v][1:] for v in iv]
        return akrun_check(prog, exp, '%s (valid entries -> content %s) sliced [:, %s]' % (cls, iv, '1' if headkind == 'at' else '1:'))
    return mdischarge(nc.m, '%s::getitem_next(%s) passing through, pattern=%s variant=%s' % (cls, headkind, ''.join('N' if p else 'v' for p in pattern), variant), obls, [], replay=replay, prefer=[nc.lencontent <= 8],
                      extra=dict(bounds='%d entries, missing pattern concrete (case split); index values, mask bytes, slice item values symbolic' % n))


def jobs_option_getitem(tier):
    js = []
    pats = [(0, 1, 0), (0, 0)] if tier == 'quick' else [p for k in (1, 2, 3) for p in itertools.product((0, 1), repeat=k)]
    for hk in ('at', 'range', 'array_adv'):
        for p in pats:
            if hk == 'array_adv' and not p:
                continue
            js.append((h_option_getitem, ('IndexedOptionArray64', p, None, hk), 1800))
            js.append((h_option_getitem, ('ByteMaskedArray', p, True, hk), 1800))
            js.append((h_option_getitem, ('BitMaskedArray', p, (True, False), hk), 1800))
            if not any(p):
                js.append((h_option_getitem, ('IndexedArray64', p, None, hk), 1800))
                js.append((h_option_getitem, ('UnmaskedArray', p, None, hk), 1800))
    return js


# ------------------------------------------------------------------------------------------------ C09: fillna on an option node
@guard
def h_fillna(pattern, mergeable):
    """IndexedOptionArray64::fillna(value): exactly the missing entries are replaced by the (single) fill value, every valid entry keeps its own
    element, order and length unchanged - whether or not the value's type merges into the content"""
    pattern = tuple(map(bool, pattern))
    n = len(pattern)
    nc = NodeCtx(['IA', 'UNI', 'IDX', 'CNT', 'UTL', 'KD', 'IDS', 'EA'], [], unwind=max(14, 4 * n + 12))
    BASE = 1 << 32
    kk = z3.BitVec('k!', 64)
    vptr = nc.new_content_in(nc.m.mem, 'fillvalue', BV(1), z3.Lambda([kk], kk + BASE), const=True)

    def s_mergeable(eng, fr, ins, st, name, argv):
        return z3.BitVecVal(1 if mergeable else 0, 1)
    nc.m.eng.stubs['vf$slot%d' % nc.slot('9mergeableERKSt10shared_ptr')] = s_mergeable

    def s_content_mergemany(eng, fr, ins, st, name, argv):
        sret, selfp, vec = argv
        first, finfo = nc.content_info(selfp, st, eng)
        o = st.mem.o[vec.obj]
        b, e = o.cells[vec.off][0], o.cells[vec.off + 8][0]
        qb = [q for g, q in nodeh.ptr_cases(b) if q.obj is not None][0]
        qe = [q for g, q in nodeh.ptr_cases(e) if q.obj is not None][0]
        buf = st.mem.o[qb.obj]
        parts = [finfo] + [nc.content_info(buf.cells[qb.off + 16 * i][0], st, eng)[1] for i in range((qe.off - qb.off) // 16)]
        total, body, cum = BV(0), BV(-7), []
        for info in parts:
            cum.append(total); total = total + info['length']
        for info, c0 in zip(parts, cum):
            body = z3.If(kk >= c0, z3.Select(info['atoms'], kk - c0), body)
        nc._ret(st, sret, nc.fresh_content(eng, st, z3.simplify(total), z3.Lambda([kk], body), derived='merged'))
        return None
    nc.m.eng.stubs['vf$slot%d' % nc.slot('9mergemanyERKSt6vector')] = s_content_mergemany
    this, idx = build_option64(nc, pattern)
    vref = nc.m.record('valueref', {0: (vptr, 8), 8: (NULL, 8)}, const=True)
    nc.m.record('ret', {})
    cands = [f for mod_ in nc.m.eng.mods for f in mod_.func_src if f.startswith('_ZNK7awkward14IndexedArrayOfIlLb1EE6fillnaE')]
    out = nc.m.call(cands[0], [Ptr('ret', 0), this, vref])
    obls = [('fillna does not raise', out.raised)]
    want = [Elem(BV(BASE)) if miss else Elem(idx[i]) for i, miss in enumerate(pattern)]
    rcell = nc.m.cell('ret', 0)
    for g, res in (nodeh.decode_cases(nc, out.mem, rcell) if rcell is not None else []):
        if res is None:
            obls.append(('a result is returned', z3.And(g, z3.Not(out.raised))))
        else:
            obls += [(nm, z3.And(g, z3.Not(out.raised), c)) for nm, c in nodeh.compare_value(res, want)]

    def replay(model, ent):
        iv = [model.eval(x, model_completion=True).as_signed_long() for x in idx]
        lc = max([model.eval(nc.lencontent, model_completion=True).as_signed_long(), 1] + [v + 1 for v in iv])
        if lc > 60:
            return False, 'content too long to replay', {}
        if mergeable:
            prog = 'i64 %s option64 %s i64 1 999 fillna' % (fullnative.ints(range(lc)), fullnative.ints(iv))
            exp = [999 if v < 0 else v for v in iv]
        else:
            prog = 'i64 %s option64 %s i64 2 998 999 regular 2 1 fillna' % (fullnative.ints(range(lc)), fullnative.ints(iv))
            exp = [[998, 999] if v < 0 else v for v in iv]
        return akrun_check(prog, exp, 'IndexedOptionArray64(index=%s).fillna(%s)' % (iv, '999' if mergeable else '[998, 999]'))
    return mdischarge(nc.m, 'IndexedOptionArray64::fillna pattern=%s %s' % (''.join('N' if p else 'v' for p in pattern), 'mergeable value' if mergeable else 'value of another type'), obls, [],
                      replay=replay, prefer=[nc.lencontent <= 8], extra=dict(bounds='%d entries, missing pattern concrete (case split), index values symbolic' % n))


def jobs_fillna(tier):
    pats = [(0, 1, 0), (1, 1), (0, 0)] if tier == 'quick' else [p for k in (1, 2, 3, 4) for p in itertools.product((0, 1), repeat=k)]
    return [(h_fillna, (p, mg), 1800) for p in pats for mg in (True, False)]


# ------------------------------------------------------------------------------------------------ C03 / C06: axis normalisation in Content::reduce / sort / argsort
@guard
def h_content_axis(method, n):
    """Content::reduce / sort / argsort (the public entry points): the axis is translated to 'levels counted from the leaves' - a non-negative axis a
    on a structure of depth d means d - a, a negative axis -k means k -, an axis outside the depth (or a non-negative axis on a structure whose
    branches differ in depth) raises; the node's own *_next method then receives that value, one group (parents all 0, starts [0], outlength 1) and
    the caller's flags unchanged"""
    nc = NodeCtx(['CNT', 'IDX', 'UTL', 'KD', 'IDS'], [], unwind=max(10, n + 8))
    axis, depth, branch = nc.m.bv('axis'), nc.m.bv('depth'), z3.Bool('branches')
    f1, f2 = z3.Bool('flag1'), z3.Bool('flag2')
    nc.m.assume(axis >= -200, axis <= 200, depth >= 1, depth <= 100, nc.lencontent == n)
    seen = []
    S = nc.slot
    nc.m.eng.stubs['vf$slot%d' % S('12branch_depthEv')] = lambda eng, fr, ins, st, name, argv: [z3.If(branch, z3.BitVecVal(1, 8), z3.BitVecVal(0, 8)), depth]

    def s_next(eng, fr, ins, st, name, argv):
        sret = argv[0]
        if method == 'reduce':
            _, selfp, reducer, negaxis, starts, shifts, parents, outlength, a1, a2 = argv
            nsh = st.mem.o[shifts.obj].cells[shifts.off + 40][0]
        elif method == 'sort':
            _, selfp, negaxis, starts, parents, outlength, a1, a2 = argv
            nsh = BV(0)
        else:
            _, selfp, negaxis, starts, shifts, parents, outlength, a1, a2 = argv
            nsh = st.mem.o[shifts.obj].cells[shifts.off + 40][0]
        seen.append(dict(pc=st.pc, negaxis=negaxis, starts=nc.index_terms(st.mem, starts, 'starts')[0], parents=nc.index_terms(st.mem, parents, 'parents')[0], nshifts=nsh,
                         outlength=outlength, a1=a1, a2=a2))
        k = z3.BitVec('k!', 64)
        nc._ret(st, sret, nc.fresh_content(eng, st, BV(1), z3.Lambda([k], k + 77), derived='next'))
        return None
    frag = {'reduce': '11reduce_nextERKNS_7ReducerEl', 'sort': '9sort_nextEl', 'argsort': '12argsort_nextEl'}[method]
    nc.m.eng.stubs['vf$slot%d' % S(frag)] = s_next
    nc.m.eng.stubs['vf$slot%d' % S('17getitem_at_nowrapEl')] = lambda eng, fr, ins, st, name, argv: (nc._ret(st, argv[0], nc.fresh_content(eng, st, BV(1), z3.K(z3.BitVecSort(64), BV(5)))), None)[1]
    reducer = nc.m.record('reducer', {0: (Ptr('fakevt', 0), 8)}, const=True)
    nc.m.record('ret', {})
    b1, b2 = z3.If(f1, z3.BitVecVal(1, 1), z3.BitVecVal(0, 1)), z3.If(f2, z3.BitVecVal(1, 1), z3.BitVecVal(0, 1))
    if method == 'reduce':
        out = nc.m.call('_ZNK7awkward7Content6reduceERKNS_7ReducerElbb', [Ptr('ret', 0), nc.content0, reducer, axis, b1, b2])
    else:
        out = nc.m.call('_ZNK7awkward7Content%sElbb' % ('4sort' if method == 'sort' else '7argsort'), [Ptr('ret', 0), nc.content0, axis, b1, b2])
    want = z3.If(axis >= 0, depth - axis, -axis)
    valid = z3.And(want >= 1, want <= depth, z3.Or(z3.Not(branch), axis < 0))
    called = z3.Or([ob['pc'] for ob in seen] + [z3.BoolVal(False)])
    obls = [('raises exactly when the axis does not name a level of the structure', z3.simplify(out.raised) != z3.Not(valid)),
            ('an invalid axis never reaches the node', z3.And(z3.Not(valid), called)), ('a valid axis reaches the node', z3.And(valid, z3.Not(called)))]
    for ob in seen:
        g = ob['pc']
        obls.append(('the node receives the axis as levels counted from the leaves', z3.And(g, ob['negaxis'] != want)))
        obls.append(('one group: starts = [0], outlength = 1, no shifts', z3.And(g, z3.Or(z3.BoolVal(len(ob['starts']) != 1), ob['starts'][0] != 0 if ob['starts'] else z3.BoolVal(True), ob['outlength'] != 1, ob['nshifts'] != 0))))
        obls.append(('every entry belongs to that group (parents all 0, one per entry)', z3.Or([g] if len(ob['parents']) != n else [z3.And(g, p != 0) for p in ob['parents']] + [z3.BoolVal(False)])))
        obls.append(('the flags of the caller are passed on unchanged', z3.And(g, z3.Or(ob['a1'] != b1, ob['a2'] != b2))))
    def replay(model, ent):
        import numpy as np
        ev = lambda t: model.eval(t, model_completion=True)
        A, D, B = ev(axis).as_signed_long(), ev(depth).as_signed_long(), z3.is_true(ev(branch))
        if B or not (1 <= D <= 3):
            return False, 'replay needs a non-branching structure of depth <= 3', dict(axis=A, depth=D, branching=B)
        vals = [(7 * k + 3) % 11 for k in range(2 ** D)]
        arr = np.array(vals).reshape((2,) * D)
        prog = 'i64 %s ' % fullnative.ints(vals) + ''.join('regular 2 %d ' % (2 ** (D - 1 - lvl)) for lvl in range(D - 1))
        ok_axis = -D <= A < D
        if method == 'reduce':
            prog += 'reduce sum %d 0 0' % A
            exp = arr.sum(axis=A).tolist() if ok_axis else None
        elif method == 'sort':
            prog += 'sort %d 1 1' % A
            exp = np.sort(arr, axis=A, kind='stable').tolist() if ok_axis else None
        else:
            prog += 'argsort %d 1 1' % A
            exp = np.argsort(arr, axis=A, kind='stable').tolist() if ok_axis else None
        kind_, got = fullnative.akrun(prog)
        payload = dict(program=prog, native=[kind_, got], expected=exp)
        if exp is None:
            if kind_ != 'ERR':
                return True, '%s(axis=%d) on a depth-%d array: the axis is out of range but the native library returns %s %s' % (method, A, D, kind_, str(got)[:120]), payload
            return False, 'native library raises', payload
        if kind_ != 'OK' or got != exp:
            return True, '%s(axis=%d) on %s: native library %s %s, NumPy gives %s' % (method, A, arr.tolist(), kind_, str(got)[:150], exp), payload
        return False, 'native library agrees with NumPy (%s)' % (got,), payload
    return mdischarge(nc.m, 'Content::%s axis normalisation n=%d' % (method, n), obls, [('valid positive axis', z3.And(valid, axis > 0)), ('valid negative axis', z3.And(valid, axis < 0)), ('invalid', z3.Not(valid))],
                      replay=replay, prefer=[z3.Not(branch), depth <= 3, axis >= -4, axis <= 4], extra=dict(bounds='any axis in [-200, 200], depth 1..100, branching or not, %d entries' % n))


def jobs_axis(tier, methods):
    return [(h_content_axis, (m_, n), 1800) for m_ in methods for n in ((0, 2) if tier == 'quick' else (0, 1, 2, 3))]


# ------------------------------------------------------------------------------------------------ C01: ellipsis and newaxis expansion (Content::getitem_next)
def _slice_object(nc, name, items):
    """Slice holding the given item pointers (sealed)"""
    cells = {}
    for i, it in enumerate(items):
        cells[16 * i] = (it, 8); cells[16 * i + 8] = (NULL, 8)
    nc.m.record(name + '_buf', cells, const=True)
    nb = 16 * len(items)
    b = Ptr(name + '_buf', 0) if items else NULL
    e = Ptr(name + '_buf', nb) if items else NULL
    return nc.m.record(name, {0: (b, 8), 8: (e, 8), 16: (e, 8), 24: (BV(1, 8), 1)}, const=True)


def _item_class(mem, p):
    """class of the SliceItem a pointer designates (by its vptr), '' for null"""
    cs = [(g, q) for g, q in nodeh.ptr_cases(p) if q.obj is not None]
    if not cs:
        return ''
    o = mem.o[cs[0][1].obj]
    vp = o.cells.get(cs[0][1].off)
    vc = nodeh.ptr_cases(vp[0]) if vp else []
    return str(vc[0][1].obj) if vc else '?'


def _slice_items(mem, sl):
    o = mem.o[sl.obj]
    b, e = o.cells[sl.off][0], o.cells[sl.off + 8][0]
    bc = [q for g, q in nodeh.ptr_cases(b) if q.obj is not None]
    ec = [q for g, q in nodeh.ptr_cases(e) if q.obj is not None]
    if not bc:
        return []
    qb, qe = bc[0], ec[0]
    buf = mem.o[qb.obj]
    n = (qe.off - qb.off) // 16
    return [buf.cells[qb.off + 16 * i][0] for i in range(n)]


def _slice_item(nc, i, kind):
    """real slice item object number i of the given kind -> pointer"""
    if kind == 'at':
        return nc.m.record('it%d' % i, {0: (nc.vptr_of('N7awkward7SliceAtE', 'SLC'), 8), 8: (BV(i), 8)}, const=True)
    if kind == 'range':
        from .c18 import KNONE
        return nc.m.record('it%d' % i, {0: (nc.vptr_of('N7awkward10SliceRangeE', 'SLC'), 8), 8: (BV(KNONE), 8), 16: (BV(KNONE), 8), 24: (BV(1), 8)}, const=True)
    if kind == 'newaxis':
        return nc.m.record('it%d' % i, {0: (nc.vptr_of('N7awkward12SliceNewAxisE', 'SLC'), 8)}, const=True)
    if kind in ('array1', 'array2'):
        fo, sz, al, fields = nc.layout_of('SLC', '_ZNK7awkward12SliceArrayOfIlE4ndimEv')
        shape = [2] if kind == 'array1' else [2, 2]
        n = 2 if kind == 'array1' else 4
        data = nc.m.array('it%d_data' % i, ('i', 64), n, const=True)
        cells = {0: (nc.vptr_of('N7awkward12SliceArrayOfIlEE', 'SLC'), 8)}
        nc.index_cells(cells, fo[1], data, BV(0), BV(n))
        # std::vector<int64_t> buffers as records (byte-addressed, copied cell-wise by the vector copy constructor)
        sh = nc.m.record('it%d_shape' % i, {8 * k_: (BV(v_), 8) for k_, v_ in enumerate(shape)}, const=True)
        stv = nc.m.record('it%d_strides' % i, {8 * k_: (BV(v_), 8) for k_, v_ in enumerate([2, 1][-len(shape):])}, const=True)
        for base, arr_ in ((fo[2], sh), (fo[3], stv)):
            cells[base] = (arr_, 8)
            cells[base + 8] = (Ptr(arr_.obj, 8 * len(shape)), 8)
            cells[base + 16] = (Ptr(arr_.obj, 8 * len(shape)), 8)
        cells[fo[4]] = (BV(0, 8), 1)
        return nc.m.record('it%d' % i, cells, const=True)
    raise Unsupported('slice item kind ' + kind)


def _const_array(vals):
    arr = z3.K(z3.BitVecSort(64), BV(0))
    for i, v in enumerate(vals):
        arr = z3.Store(arr, BV(i), BV(v))
    return arr


ITEM_CLASS = {'at': 'SliceAt', 'range': 'SliceRange', 'newaxis': 'SliceNewAxis', 'array1': 'SliceArrayOf', 'array2': 'SliceArrayOf'}


@guard
def h_ellipsis(k, kind):
    """Content::getitem_next for an ellipsis / newaxis item with further items after it (k integers, or a tuple of item kinds: at, range, array1,
    array2 = a two-dimensional integer array, newaxis), on a node of any depth: an ellipsis stands for as many full ranges as the structure has
    dimensions left - it is consumed exactly when the remaining items already account for all dimensions below this one (an integer, a range and
    an index array of any dimension each address one dimension, a newaxis none), otherwise one full range is applied here and the ellipsis stays
    in front of the remaining items; a newaxis item applies the rest of the slice and wraps the answer in a regular dimension of size 1"""
    kinds = ('at',) * k if isinstance(k, int) else tuple(k)
    k = len(kinds)
    D = sum(1 for x in kinds if x != 'newaxis')        # dimensions the remaining items address
    nc = NodeCtx(['CNT', 'SLC', 'RA', 'IDX', 'UTL', 'KD', 'IDS'], [], unwind=max(12, 2 * k + 12))
    dmin, dmax = nc.m.bv('mindepth'), nc.m.bv('maxdepth')
    nc.m.assume(dmin >= 1, dmin <= dmax, dmax <= 50, nc.lencontent <= 2 ** 20)
    nc.m.eng.stubs['vf$slot%d' % nc.slot('12minmax_depthEv')] = lambda eng, fr, ins, st, name, argv: [dmin, dmax]
    seen = []
    kk = z3.BitVec('k!', 64)

    def s_getitem_next(eng, fr, ins, st, name, argv):
        sret, selfp, head, tail, adv = argv
        hp = st.mem.o[head.obj].cells.get(head.off)
        hcls = _item_class(st.mem, hp[0]) if hp else ''
        items = _slice_items(st.mem, tail)
        hrange = None
        if 'SliceRange' in hcls:
            q = [qq for g, qq in nodeh.ptr_cases(hp[0]) if qq.obj is not None][0]
            ho = st.mem.o[q.obj]
            hrange = tuple(ho.cells[q.off + 8 * j][0] for j in (1, 2, 3))
        seen.append(dict(pc=st.pc, head=hcls, headptr=hp[0] if hp else None, tail=[_item_class(st.mem, x) for x in items], tailptrs=items, hrange=hrange))
        nc._ret(st, sret, nc.fresh_content(eng, st, BV(3), z3.Lambda([kk], kk + 500), derived='next'))
        return None
    nc.m.eng.stubs['vf$slot%d' % nc.slot('12getitem_nextERKSt10shared_ptrINS_9SliceItemEERKNS_5SliceERKNS_7IndexOfIlEE')] = s_getitem_next
    its = [_slice_item(nc, i, kd) for i, kd in enumerate(kinds)]
    tail = _slice_object(nc, 'tail', its)
    cells = {}
    nc.index_cells(cells, 0, NULL, BV(0), BV(0))
    cells[48] = (BV(1, 8), 1)
    adv = nc.m.record('advanced', cells, const=True)
    nc.m.record('ret', {})

    def same_item(p, i):
        return z3.Or([gg for gg, qq in nodeh.ptr_cases(p) if qq.obj == 'it%d' % i] + [z3.BoolVal(False)])
    first_cls = ITEM_CLASS[kinds[0]] if k else ''
    if kind == 'ellipsis':
        item = nc.m.record('ellipsis', {0: (nc.vptr_of('N7awkward13SliceEllipsisE', 'SLC'), 8)}, const=True)
        out = nc.m.call('_ZNK7awkward7Content12getitem_nextERKNS_13SliceEllipsisERKNS_5SliceERKNS_7IndexOfIlEE', [Ptr('ret', 0), nc.content0, item, tail, adv])
        consumed = z3.Or(z3.BoolVal(k == 0), z3.And(dmin - 1 == D, dmax - 1 == D))
        mixed = z3.And(z3.Not(consumed), z3.Or(dmin - 1 == D, dmax - 1 == D))
        obls = [('raises exactly for a structure whose branches differ in depth when only one of them is exhausted by the items', z3.simplify(out.raised) != mixed)]
        for ob in seen:
            g = ob['pc']
            is_first = len(ob['tail']) == max(k - 1, 0) and ((first_cls in ob['head']) if k else ob['head'] == '')
            is_kept = 'SliceRange' in ob['head'] and ob['hrange'] is not None and len(ob['tail']) == k + 1 and 'SliceEllipsis' in (ob['tail'][0] if ob['tail'] else '')
            obls.append(('the ellipsis is dropped exactly when the items account for every dimension below', z3.And(g, consumed, z3.BoolVal(not is_first))))
            obls.append(('otherwise a full range is applied here and the ellipsis stays in front of the items', z3.And(g, z3.Not(consumed), z3.BoolVal(not is_kept))))
            if is_kept:
                a_, b_, c_ = ob['hrange']
                from .c18 import KNONE
                obls.append(('the range applied here is the full range [None:None:1]', z3.And(g, z3.Not(consumed), z3.Or(a_ != KNONE, b_ != KNONE, c_ != 1))))
                same = [same_item(ob['tailptrs'][1 + i], i) for i in range(k)]
                obls.append(('the remaining items keep their order', z3.And(g, z3.Not(consumed), z3.Not(z3.And(same + [z3.BoolVal(True)])))))
            if is_first and k:
                same = [same_item(ob['headptr'], 0)] + [same_item(ob['tailptrs'][i - 1], i) for i in range(1, k)]
                obls.append(('the remaining items are applied in their order', z3.And(g, consumed, z3.Not(z3.And(same)))))
        tw = [('consumed', consumed)] + ([('kept', z3.And(z3.Not(consumed), z3.Not(mixed)))] if k else [])
    else:
        item = nc.m.record('newaxis', {0: (nc.vptr_of('N7awkward12SliceNewAxisE', 'SLC'), 8)}, const=True)
        out = nc.m.call('_ZNK7awkward7Content12getitem_nextERKNS_12SliceNewAxisERKNS_5SliceERKNS_7IndexOfIlEE', [Ptr('ret', 0), nc.content0, item, tail, adv])
        obls = [('newaxis does not raise', out.raised), ('the rest of the slice is applied exactly once', z3.BoolVal(len(seen) != 1))]
        for ob in seen:
            okh = ((first_cls in ob['head']) if k else ob['head'] == '') and len(ob['tail']) == max(k - 1, 0)
            obls.append(('the rest of the slice is applied unchanged', z3.And(ob['pc'], z3.BoolVal(not okh))))
            if okh and k:
                same = [same_item(ob['headptr'], 0)] + [same_item(ob['tailptrs'][i - 1], i) for i in range(1, k)]
                obls.append(('the remaining items are applied in their order', z3.And(ob['pc'], z3.Not(z3.And(same)))))
        res = decode(nc, out.mem, nc.m.cell('ret', 0))
        if res['cls'] != 'regular':
            obls.append(('the answer is wrapped in a regular dimension', z3.BoolVal(True)))
        else:
            obls.append(('the new dimension has size 1 and one entry per entry of the answer', z3.Or(res['size'] != 1, res['length'] != 3)))
            if res['content']['cls'] != 'opaque' or res['content'].get('derived') != 'next':
                obls.append(('the new dimension wraps the answer itself', z3.BoolVal(True)))
        tw = []

    def replay(model, ent):
        import numpy as np
        d1 = model.eval(dmin, model_completion=True).as_signed_long() - 1
        d2 = model.eval(dmax, model_completion=True).as_signed_long() - 1
        if d1 < 1 or d2 > 4:
            return False, 'structure of depth %d..%d is not replayed' % (d1, d2), {}
        if sum(1 for x in kinds if x.startswith('array')) > 1:
            return False, 'several index arrays in one slice are not replayed', {}
        side = max(k + 1, 2)

        def nest(d):
            n = side ** d
            return 'i64 %d %s ' % (n, ' '.join(map(str, range(n)))) + 'regular %d 0 ' % side * (d - 1)
        toks, py = [], []
        for i, kd in enumerate(kinds):
            if kd == 'at':
                toks.append('at %d' % i); py.append(i)
            elif kd == 'range':
                toks.append('range NONE NONE 1'); py.append(slice(None))
            elif kd == 'newaxis':
                toks.append('newaxis'); py.append(None)
            elif kd == 'array1':
                toks.append('array 2 1 0'); py.append(np.array([1, 0]))
            else:
                toks.append('array2d 2 2 0 1 1 0'); py.append(np.array([[0, 1], [1, 0]]))
        items = ' '.join(toks)
        if d1 == d2:
            prog = nest(d1) + 'getitem %d %s %s' % (k + 1, kind, items)
            a = np.arange(side ** d1).reshape((side,) * d1)
            try:
                exp = a[(Ellipsis if kind == 'ellipsis' else None,) + tuple(py)].tolist()
            except IndexError:
                exp = None
        else:
            if kind != 'ellipsis' or not (D in (d1, d2)):
                return False, 'structures whose branches differ in depth are replayed only where the ellipsis must be refused', {}
            prog = nest(d1) + nest(d2) + 'tuple 2 %d getitem %d %s %s' % (side, k + 1, kind, items)
            exp = None
        kind_, got = fullnative.akrun(prog)
        payload = dict(program=prog, native=[kind_, got], expected=exp)
        if exp is None:
            if kind_ != 'ERR':
                return True, 'array[%s, %s] on depth %d..%d must be refused, but the native library returns %s %s' % (kind, items, d1, d2, kind_, str(got)[:150]), payload
            return False, 'native library raises, as expected', payload
        if kind_ != 'OK' or got != exp:
            return True, 'array[%s, %s] on a %d-dimensional array: native library %s %s, NumPy gives %s' % (kind, items, d1, kind_, str(got)[:150], exp), payload
        return False, 'native library agrees (%s)' % str(got)[:80], payload
    return mdischarge(nc.m, 'Content::getitem_next(%s) followed by (%s)' % (kind, ', '.join(kinds)), obls, tw, replay=replay, prefer=[dmin >= 2, dmax <= 5, dmax - dmin <= 1],
                      extra=dict(bounds='%d items after the %s (kinds concrete: case split); min / max depth of the structure symbolic (1..50)' % (k, kind)))


def jobs_ellipsis(tier):
    tails = [0, 1, 2, ('array2',), ('range', 'array1'), ('at', 'newaxis', 'range')] if tier == 'quick' else \
        [0, 1, 2, 3, ('array2',), ('array1',), ('range',), ('range', 'array1'), ('array2', 'at'), ('at', 'newaxis', 'range'), ('newaxis', 'array2', 'range'), ('range', 'range', 'at')]
    return [(h_ellipsis, (k, kind), 1800) for kind in ('ellipsis', 'newaxis') for k in tails]


# ------------------------------------------------------------------------------------------------ C08: reverse_merge (a non-indexed array followed by an indexed / option one)
@guard
def h_reverse_merge(cls, pat, L):
    """IndexedArrayOf<T, ISOPTION>::reverse_merge(other): what `other.merge(indexed)` does when the indexed / option array is not the first
    operand - the result lists every entry of `other`, then every entry of the indexed array; a missing entry stays missing and a present entry
    is still the same element of its own content, for every index width"""
    pat = tuple(map(bool, pat))
    nc = NodeCtx(['IA', 'BMA', 'BIT', 'UMA', 'IDX', 'CNT', 'UTL', 'KD', 'IDS', 'EA'], [], unwind=max(12, len(pat) + 10))
    BASE = 1 << 32
    node, idx = build_indexed(nc, cls, pat, nc.content0, nc.lencontent, 'node0')
    olen = BV(L)
    nc.m.assume(nc.lencontent <= 2 ** 20)
    kk = z3.BitVec('k!', 64)
    other = nc.new_content_in(nc.m.mem, 'content_other', olen, z3.Lambda([kk], kk + BASE), const=True)
    install_merge_stub(nc)
    otherp = nc.m.record('otherptr', {0: (other, 8), 8: (NULL, 8)}, const=True)
    nc.m.record('ret', {})
    mangled, bits, T, option = INDEXED[cls]
    cands = [f for mod_ in nc.m.eng.mods for f in mod_.func_src if f.startswith('_ZNK7awkward14IndexedArrayOfI%sLb%dEE13reverse_mergeE' % (T, 1 if option else 0))]
    if not cands:
        raise Unsupported('reverse_merge not found in the IR')
    out = nc.m.call(cands[0], [Ptr('ret', 0), node, otherp])
    obls = [('reverse_merge does not raise', out.raised)]
    want = [Elem(BV(j) + BASE) for j in range(L)] + [NONE if miss else Elem(idx[i]) for i, miss in enumerate(pat)]
    retp = nc.m.cell('ret', 0) if 0 in out.mem.o['ret'].cells else None
    if retp is not None:
        for g, res in nodeh.decode_cases(nc, out.mem, retp):
            if res is None:
                obls.append(('a result is returned', z3.And(g, z3.Not(out.raised))))
                continue
            obls += [(nm, z3.And(g, c)) for nm, c in nodeh.compare_value(res, want)]
            if res['cls'] == 'indexed':
                for i, t in enumerate(res.get('index', [])):
                    obls.append(('a non-option result has no negative index (entry %d)' % i, z3.And(g, t < 0)))

    def replay(model, ent):
        ev = lambda t: model.eval(t, model_completion=True).as_signed_long()
        tok = {'IndexedArray32': 'indexed32', 'IndexedArrayU32': 'indexedU32', 'IndexedArray64': 'indexed64', 'IndexedOptionArray32': 'option32', 'IndexedOptionArray64': 'option64'}
        iv = [ev(x) for x in idx]
        lc = max([ev(nc.lencontent), 1] + [v + 1 for v in iv])
        if lc > 100:
            return False, 'content too long to replay', {}
        prog = 'i64 %s i64 %s %s %s merge' % (fullnative.ints([5000 + j for j in range(L)]), fullnative.ints(list(range(lc))), tok[cls], fullnative.ints(iv))
        exp = [5000 + j for j in range(L)] + [None if v < 0 else v for v in iv]
        return akrun_check(prog, exp, 'NumpyArray of %d items merged with %s%s' % (L, cls, iv))
    return mdischarge(nc.m, '%s[%s]::reverse_merge after %d items' % (cls, ''.join('N' if x else 'v' for x in pat), L), obls, [], replay=replay,
                      prefer=[nc.lencontent <= 6], extra=dict(bounds='other of concrete length (opaque); missing pattern concrete (case split), index values and content length symbolic'))


def jobs_reverse_merge(tier):
    A = [('IndexedOptionArray64', (0, 1)), ('IndexedArray64', (0, 0)), ('IndexedOptionArray32', (1, 0, 0)), ('IndexedArray32', (0,)), ('IndexedArrayU32', (0, 0))]
    return [(h_reverse_merge, a + (L,), 1800) for a in A for L in ((2,) if tier == 'quick' else (0, 1, 3))]


@guard
def h_record_mergemany(nfields, la, lb):
    """RecordArray::mergemany of two tuples with the same number of fields: the result has the records of the first (exactly `length` of them, even
    when its field contents are longer) followed by the records of the second, field by field"""
    nc = NodeCtx(['REC', 'IA', 'IDX', 'CNT', 'UTL', 'KD', 'IDS', 'EA'], [], unwind=max(14, 4 * nfields + la + lb + 10))
    a, va, lensa = build_record(nc, nfields, la, name='node')
    b, vb, lensb = build_record(nc, nfields, lb, name='nodeb', tag='b', first=False, space=16)
    install_merge_stub(nc)
    nc.m.record('othersbuf', {0: (b, 8), 8: (NULL, 8)}, const=True)
    others = nc.m.record('others', {0: (Ptr('othersbuf', 0), 8), 8: (Ptr('othersbuf', 16), 8), 16: (Ptr('othersbuf', 16), 8)}, const=True)
    nc.m.record('ret', {})
    out = nc.m.call('_ZNK7awkward11RecordArray9mergemanyERKSt6vectorISt10shared_ptrINS_7ContentEESaIS4_EE', [Ptr('ret', 0), a, others])
    obls = [('mergemany does not raise', out.raised)]
    want = va + vb
    for g, res in nodeh.decode_cases(nc, out.mem, nc.m.cell('ret', 0)):
        if res is None:
            obls.append(('a result is returned', z3.And(g, z3.Not(out.raised))))
            continue
        if res['cls'] != 'record' or len(res['contents']) != nfields:
            obls.append(('the result is a record array with the same fields', g))
            continue
        obls.append(('the result has as many records as both operands together', z3.And(g, res['length'] != la + lb)))
        for i in range(la + lb):
            for k in range(nfields):
                obls += [(nm, z3.And(g, c)) for nm, c in compare(nodeh.at(res['contents'][k], i), want[i][k], 'record %d field %d' % (i, k))]

    def replay(model, ent):
        ev = lambda t: model.eval(t, model_completion=True).as_signed_long()
        prog, exp = '', []
        for tagk, (L, lens) in enumerate(((la, lensa), (lb, lensb))):
            ls = [min(ev(x), L + 3) for x in lens]
            for k, n in enumerate(ls):
                prog += 'i64 %s ' % fullnative.ints([1000 * tagk + 100 * k + j for j in range(n)])
            prog += 'tuple %d %d ' % (nfields, L)
            exp += [{str(k): 1000 * tagk + 100 * k + j for k in range(nfields)} for j in range(L)]
        prog += 'merge'
        return akrun_check(prog, exp, 'merge of two %d-field tuples of %d and %d records (field contents of the first %s long)' % (nfields, la, lb, [min(ev(x), la + 3) for x in lensa]))
    return mdischarge(nc.m, 'RecordArray::mergemany %d fields, %d + %d records' % (nfields, la, lb), obls, [('first record array has longer field contents than records', lensa[0] > la)] if nfields else [],
                      replay=replay, prefer=[x <= la + 2 for x in lensa] + [x <= lb + 2 for x in lensb],
                      extra=dict(bounds='%d fields; %d and %d records (case split); field content lengths symbolic (>= number of records)' % (nfields, la, lb)))


def jobs_record_merge(tier):
    return [(h_record_mergemany, a, 1800) for a in ([(1, 2, 1), (2, 1, 2), (0, 2, 1)] if tier == 'quick' else [(1, 0, 2), (2, 2, 2), (3, 1, 1), (2, 3, 0), (0, 0, 3)])]


# ------------------------------------------------------------------------------------------------ C08: mergemany of list nodes
def _build_list_operand(nc, k, cls, dims):
    """list node number k over its own opaque content (atoms k * 2^32 + position)"""
    BASE = 1 << 32
    if k == 0:
        cp, clen = nc.content0, nc.lencontent
    else:
        clen = nc.m.bv('lencontent%d' % k)
        nc.m.assume(clen >= 0, clen <= 2 ** 20)
        kk = z3.BitVec('k!', 64)
        cp = nc.new_content_in(nc.m.mem, 'content_%d' % k, clen, z3.Lambda([kk], kk + k * BASE), const=True)
    saved = nc.content0, nc.lencontent
    nc.content0, nc.lencontent = cp, clen
    try:
        name = 'node%d' % k
        if cls.startswith('ListOffsetArray'):
            w = cls[len('ListOffsetArray'):]
            this, lists, offs = build_listoffset64(nc, list(dims), name=name, width=w)
            info = dict(cls=cls, offs=offs, lens=list(dims), width=w)
        elif cls.startswith('ListArray'):
            w = cls[len('ListArray'):]
            this, lists, starts = build_list64(nc, list(dims), name=name, width=w)
            info = dict(cls=cls, starts=starts, lens=list(dims), width=w)
        else:
            this, lists = build_regular(nc, dims[0], dims[1], name=name)
            info = dict(cls=cls, size=dims[0], length=dims[1])
    finally:
        nc.content0, nc.lencontent = saved
    lists = [[Elem(z3.simplify(e.val + k * BASE)) for e in lst] for lst in lists]
    info['lencontent'] = clen
    return this, lists, info


@guard
def h_list_mergemany(specs):
    """mergemany of list nodes (ListOffsetArray64 / ListArray64 / RegularArray in any mix; what ak.concatenate does along axis 0 for lists): the
    result holds the lists of the first operand, then of the second, ... - each still with its own elements in order - whatever the offsets
    origin, the gaps / order of starts, or unreachable content beyond the last list.  specs: ((class, dims), ...), first = receiver"""
    nlists = sum(len(d) if c != 'RegularArray' else d[1] for c, d in specs)
    nelem = sum(sum(d) if c != 'RegularArray' else d[0] * d[1] for c, d in specs)
    nc = NodeCtx(['LOA', 'LA', 'RA', 'IA', 'IDX', 'CNT', 'UTL', 'KD', 'IDS', 'EA'], [], unwind=max(14, nlists + nelem + 2 * len(specs) + 10))
    nodes, want, infos = [], [], []
    for k, (cls, dims) in enumerate(specs):
        this, lists, info = _build_list_operand(nc, k, cls, dims)
        nodes.append(this); want += lists; infos.append(info)
    nc.m.assume(nc.lencontent <= 2 ** 20)
    install_merge_stub(nc)
    cells = {}
    for i, nd in enumerate(nodes[1:]):
        cells[16 * i] = (nd, 8); cells[16 * i + 8] = (NULL, 8)
    nc.m.record('othersbuf', cells, const=True)
    nb = 16 * (len(nodes) - 1)
    others = nc.m.record('others', {0: (Ptr('othersbuf', 0), 8), 8: (Ptr('othersbuf', nb), 8), 16: (Ptr('othersbuf', nb), 8)}, const=True)
    nc.m.record('ret', {})
    c0 = specs[0][0]
    short = '12RegularArray' if c0 == 'RegularArray' else ('17ListOffsetArrayOfI%sE' % WIDTHS[c0[len('ListOffsetArray'):]][0] if c0.startswith('ListOffsetArray') else '11ListArrayOfI%sE' % WIDTHS[c0[len('ListArray'):]][0])
    cands = [f for mod_ in nc.m.eng.mods for f in mod_.func_src if f.startswith('_ZNK7awkward%s9mergemanyE' % short)]
    if not cands:
        raise Unsupported('mergemany not found in the IR')
    out = nc.m.call(cands[0], [Ptr('ret', 0), nodes[0], others])
    obls = [('mergemany does not raise', out.raised)]
    for g, res in nodeh.decode_cases(nc, out.mem, nc.m.cell('ret', 0)):
        if res is None:
            obls.append(('a result is returned', z3.And(g, z3.Not(out.raised))))
            continue
        obls += [(nm, z3.And(g, c)) for nm, c in nodeh.compare_value(res, want)]

    def replay(model, ent):
        ev = lambda t: model.eval(t, model_completion=True).as_signed_long()
        prog, exp = '', []
        for k, ((cls, dims), info) in enumerate(zip(specs, infos)):
            lc = ev(info['lencontent'])
            if lc > 60:
                return False, 'content too long to replay', {}
            vals = [1000 * k + j for j in range(lc)]
            prog += 'i64 %s ' % fullnative.ints(vals)
            if cls.startswith('ListOffsetArray'):
                o = [ev(x) for x in info['offs']]
                prog += 'listoffset%s %s ' % (info['width'], fullnative.ints(o))
                exp += [vals[o[i]:o[i + 1]] for i in range(len(o) - 1)]
            elif cls.startswith('ListArray'):
                s = [ev(x) for x in info['starts']]
                e = [a + L for a, L in zip(s, info['lens'])]
                prog += 'list%s %d %s %s ' % (info['width'], len(s), ' '.join(map(str, s)), ' '.join(map(str, e)))
                exp += [vals[a:b] for a, b in zip(s, e)]
            else:
                prog += 'regular %d %d ' % (info['size'], info['length'])
                exp += [vals[i * info['size']:(i + 1) * info['size']] for i in range(info['length'])]
        prog += 'mergemany %d' % (len(specs) - 1)
        return akrun_check(prog, exp, 'mergemany of %s' % (list(specs),))
    return mdischarge(nc.m, 'mergemany %s' % ' + '.join('%s%s' % (c, list(d)) for c, d in specs), obls, [], replay=replay,
                      prefer=[i['lencontent'] <= 10 for i in infos] + [x <= 4 for i in infos for x in i.get('offs', [])[:1] + i.get('starts', [])],
                      extra=dict(bounds='%d operands, list lengths concrete (case split); offsets origins, starts and content lengths symbolic' % len(specs)))


def jobs_list_merge(tier):
    LO, LA, RA = 'ListOffsetArray64', 'ListArray64', 'RegularArray'
    q = [((LO, (1, 2)), (LA, (2, 0))), ((LA, (2, 1)), (RA, (2, 2)), (LO, (1,))), ((RA, (2, 1)), (RA, (2, 2))), ((RA, (1, 2)), (LO, (0, 2)), (LA, (1,))), ((LO, (2,)), (RA, (0, 2)), (LA, (1,)))]
    q += [(('ListArray32', (2, 1)), ('ListOffsetArrayU32', (1, 2)), (LA, (1,))), (('ListOffsetArray32', (1, 2)), ('ListArrayU32', (0, 2)), ('ListOffsetArray32', (2,))), ((LO, (2,)), ('ListArray32', (1, 1)), ('ListArrayU32', (2,)))]
    if tier != 'quick':
        q += [(('ListArrayU32', (1,)), (RA, (2, 2)), ('ListOffsetArrayU32', (0, 1))), (('ListOffsetArrayU32', (2, 0)), ('ListOffsetArray32', (1,))), ((RA, (1, 2)), ('ListArray32', (2,)), ('ListOffsetArray32', (1, 1))),
              ((LA, (1, 0, 2)), (LA, (2,)), (LO, (1, 1))), ((LO, (0,)), (RA, (3, 1)), (RA, (1, 2))), ((RA, (2, 2)), (LA, (0, 3)), (RA, (2, 1)))]
    return [(h_list_mergemany, (s,), 1800) for s in q]


# ------------------------------------------------------------------------------------------------ C01: index arrays with missing values (SliceMissing64)
@guard
def h_missing(pattern, L, S):
    """Content::getitem_next(SliceMissing64): an index array with None entries, applied to L rows.  The array part (already compacted: entry i of the
    missing index is the position, within the S selected items of a row, that output column i shows, or negative for None) is applied first,
    giving L rows of S items; the answer has L rows of len(pattern) columns: column i of row r is None where the index is negative and
    otherwise item index[i] of row r of the selection - for every row, not only the first"""
    pattern = tuple(bool(x) for x in pattern)
    n = len(pattern)
    nc = NodeCtx(['CNT', 'SLC', 'RA', 'IA', 'IDX', 'UTL', 'KD', 'IDS'], ['awkward_missing_repeat'], unwind=max(12, n * max(L, 1) + n + 10))
    nc.m.assume(nc.lencontent == L)
    # what applying the array part to the L rows returns: a RegularArray of L rows of S items over its own opaque content
    BASE = 1 << 32
    kk = z3.BitVec('k!', 64)
    sel = nc.new_content_in(nc.m.mem, 'content_sel', BV(S * L), z3.Lambda([kk], kk + BASE), const=True)
    saved = nc.content0, nc.lencontent
    nc.content0, nc.lencontent = sel, BV(S * L)
    try:
        selected, rows = build_regular(nc, S, L, name='selected')
    finally:
        nc.content0, nc.lencontent = saved
    calls = []

    def s_getitem_next(eng, fr, ins, st, name, argv):
        sret, selfp, head, tail, adv = argv
        hp = st.mem.o[head.obj].cells.get(head.off)
        calls.append((st.pc, _item_class(st.mem, hp[0]) if hp else ''))
        nc._ret(st, sret, selected)
        return None
    nc.m.eng.stubs['vf$slot%d' % nc.slot('12getitem_nextERKSt10shared_ptrINS_9SliceItemEERKNS_5SliceERKNS_7IndexOfIlEE')] = s_getitem_next
    fo, sz, al, fields = nc.layout_of('SLC', '_ZNK7awkward14SliceMissingOfIlE5indexEv')
    a0 = z3.Array('missing_index', z3.BitVecSort(64), z3.BitVecSort(64))
    idx = [z3.Select(a0, BV(i)) for i in range(n)]
    for i, miss in enumerate(pattern):
        nc.m.assume(idx[i] < 0 if miss else z3.And(idx[i] >= 0, idx[i] < S))
    data = nc.m.array('missing_index', ('i', 64), max(1, n), const=True)
    mdat = nc.m.array('missing_mask', ('i', 8), max(1, n), const=True)
    inner = _slice_item(nc, 0, 'array1')
    cells = {0: (nc.vptr_of('N7awkward14SliceMissingOfIlEE', 'SLC'), 8)}
    nc.index_cells(cells, fo[1], data, BV(0), BV(n))
    nc.index_cells(cells, fo[2], mdat, BV(0), BV(n))
    cells[fo[3]] = (inner, 8); cells[fo[3] + 8] = (NULL, 8)
    item = nc.m.record('missing', cells, const=True)
    tail = _slice_object(nc, 'tail', [])
    cells = {}
    nc.index_cells(cells, 0, NULL, BV(0), BV(0))
    cells[48] = (BV(1, 8), 1)
    adv = nc.m.record('advanced', cells, const=True)
    nc.m.record('ret', {})
    out = nc.m.call('_ZNK7awkward7Content12getitem_nextERKNS_14SliceMissingOfIlEERKNS_5SliceERKNS_7IndexOfIlEE', [Ptr('ret', 0), nc.content0, item, tail, adv])
    obls = [('an index array with None does not raise', out.raised), ('the array part is applied exactly once', z3.BoolVal(len(calls) != 1))]
    want = [[NONE if miss else Elem(BV(r * S + BASE) + idx[i]) for i, miss in enumerate(pattern)] for r in range(L)]
    res = decode(nc, out.mem, nc.m.cell('ret', 0))
    got = value(res)
    if L == 0:
        # "if this is in a tuple-slice and really should be 0, it will be trimmed later": one all-None-or-garbage row is tolerated here
        obls.append(('no more than the one placeholder row for an empty selection', z3.BoolVal(len(got) > 1)))
    else:
        obls += compare(got, want)

    def replay(model, ent):
        iv = [model.eval(x, model_completion=True).as_signed_long() for x in idx]
        if L == 0:
            return False, 'empty selection is not replayed', {}
        # L rows of S + 1 items; the array part [S-1, ..., 0] selects S of them per row (reversed), the missing index picks among those
        W = S + 1
        arr = list(range(S - 1, -1, -1))
        vals = list(range(L * W))
        prog = 'i64 %s regular %d 0 getitem 2 range NONE NONE 1 missing %s array %s' % (fullnative.ints(vals), W, fullnative.ints(iv), fullnative.ints(arr))
        exp = [[None if v < 0 else vals[r * W + arr[v]] for v in iv] for r in range(L)]
        return akrun_check(prog, exp, 'array[:, %s] (None where negative, positions into the selection %s) on %d rows of %d' % (iv, arr, L, W))
    return mdischarge(nc.m, 'Content::getitem_next(SliceMissing64) pattern=%s rows=%d selected=%d' % (''.join('N' if x else 'v' for x in pattern), L, S), obls, [], replay=replay,
                      extra=dict(bounds='%d columns (None pattern concrete: case split, positions symbolic), %d rows, %d selected items per row' % (n, L, S)))


@guard
def h_missing_jagged(pattern, inner):
    """getitem_next_missing_jagged - x[[[0], None, [0, 2]]]: a jagged slice with None lists.  Entry i of the answer is None where the slice has
    None and otherwise what the content answers for list i of the slice - with the spans (offsets[k], offsets[k + 1]) of the k-th present list -
    in one row of len(slice) entries; when the content's own answer is option-type (`inner`: its missing pattern; the array sliced has missing
    lists itself) the two options are merged into one: no option node directly inside another (the validity rule)"""
    pattern = tuple(bool(x) for x in pattern)
    n = len(pattern)
    J = sum(1 for x in pattern if not x)
    nc = NodeCtx(['CNT', 'SLC', 'RA', 'IA', 'IDX', 'UTL', 'KD', 'IDS'], [], unwind=max(14, 4 * n + 12))
    fo, sz, al, fields = nc.layout_of('SLC', '_ZNK7awkward14SliceMissingOfIlE5indexEv')
    # the jagged part: J lists, offsets symbolic non-decreasing from zero
    jo = z3.Array('joffsets', z3.BitVecSort(64), z3.BitVecSort(64))
    offs = [z3.Select(jo, BV(j)) for j in range(J + 1)]
    nc.m.assume(offs[0] == 0)
    for j in range(J):
        nc.m.assume(offs[j] <= offs[j + 1], offs[j + 1] <= 2 ** 20)
    jdata = nc.m.array('joffsets', ('i', 64), J + 1, const=True)
    jc = {0: (nc.vptr_of('N7awkward13SliceJaggedOfIlEE', 'SLC'), 8), 64: (NULL, 8), 72: (NULL, 8)}
    nc.index_cells(jc, 8, jdata, BV(0), BV(J + 1))
    jag = nc.m.record('jagged', jc, const=True)
    # the missing index: entry i = which present list (in order), negative for None
    order, k = [], 0
    for miss in pattern:
        order.append(-1 if miss else k)
        k += 0 if miss else 1
    iarr = z3.K(z3.BitVecSort(64), BV(0))
    for i, v in enumerate(order):
        iarr = z3.Store(iarr, BV(i), BV(v))
    data = nc.m.array('missing_index', ('i', 64), max(1, n), const=True, arr=iarr)
    mdat = nc.m.array('missing_mask', ('i', 8), max(1, n), const=True)
    cells = {0: (nc.vptr_of('N7awkward14SliceMissingOfIlEE', 'SLC'), 8)}
    nc.index_cells(cells, fo[1], data, BV(0), BV(n))
    nc.index_cells(cells, fo[2], mdat, BV(0), BV(n))
    cells[fo[3]] = (jag, 8); cells[fo[3] + 8] = (NULL, 8)
    item = nc.m.record('missing', cells, const=True)
    tail = _slice_object(nc, 'tail', [])
    cells = {}
    nc.index_cells(cells, 0, NULL, BV(0), BV(0))
    cells[48] = (BV(1, 8), 1)
    adv = nc.m.record('advanced', cells, const=True)
    # the array sliced: `that` is the one-row wrapper Content::getitem puts around it; its row 0 is the array itself (an opaque content of >= n lists)
    BASE = 1 << 32
    kk = z3.BitVec('k!', 64)
    lin = nc.m.bv('len_sliced')
    nc.m.assume(lin >= n, lin <= 2 ** 20)
    cin = nc.new_content_in(nc.m.mem, 'content_in', lin, z3.Lambda([kk], kk + BASE), const=True)
    answer, aidx = None, None
    if inner is not None:
        inner = tuple(bool(x) for x in inner)
        assert len(inner) == n
        answer, aidx = build_option64(nc, inner, name='optanswer')
    seen = []
    ANS = z3.Function('ANSWER', z3.BitVecSort(64), z3.BitVecSort(64))

    def s_at(eng, fr, ins, st, name, argv):
        nc._ret(st, argv[0], cin)
        return None

    def s_jagged(eng, fr, ins, st, name, argv):
        sret, selfp, sstarts, sstops, it, tl = argv
        nm, info = nc.content_info(selfp, st, eng)
        a_, b_ = nc.index_terms(st.mem, sstarts, 'slicestarts')[0], nc.index_terms(st.mem, sstops, 'slicestops')[0]
        seen.append(dict(pc=st.pc, info=info, starts=a_, stops=b_))
        nc._ret(st, sret, answer if answer is not None else nc.fresh_content(eng, st, BV(len(a_)), z3.Lambda([kk], ANS(kk)), derived='jagged'))
        return None
    nc.m.eng.stubs['vf$slot%d' % nc.slot('17getitem_at_nowrapEl')] = s_at
    nc.m.eng.stubs['vf$slot%d' % nc.slot('7Content19getitem_next_jaggedERKNS_7IndexOfIlEES4_RKSt10shared_ptrINS_9SliceItemEE')] = s_jagged
    nc.m.eng.stubs['vf$slot%d' % nc.slot('9classnameB5cxx11Ev')] = nodeh.s_some_string
    that = nc.m.record('that', {0: (nc.content0, 8), 8: (NULL, 8)}, const=True)
    nc.m.record('ret', {})
    out = nc.m.call('_ZN7awkward27getitem_next_missing_jaggedERKNS_14SliceMissingOfIlEERKNS_5SliceERKNS_7IndexOfIlEERKSt10shared_ptrINS_7ContentEE', [Ptr('ret', 0), item, tail, adv, that])
    obls = [('a jagged slice with None lists that fits does not raise', out.raised), ('the content is asked', z3.Not(z3.Or([ob['pc'] for ob in seen] + [z3.BoolVal(False)])))]
    for ob in seen:
        g = ob['pc']
        obls.append(('the content asked is the array sliced', z3.And(g, z3.Or(ob['info']['length'] != lin, z3.Select(ob['info']['atoms'], BV(0)) != BV(BASE)))))
        if len(ob['starts']) != n or len(ob['stops']) != n:
            obls.append(('one (start, stop) pair per entry of the slice', g))
        else:
            for i, kq in enumerate(order):
                if kq >= 0:
                    obls.append(('entry %d: the span of present list %d' % (i, kq), z3.And(g, z3.Or(ob['starts'][i] != offs[kq], ob['stops'][i] != offs[kq + 1]))))
                else:
                    obls.append(('entry %d (None): an empty span' % i, z3.And(g, ob['starts'][i] != ob['stops'][i])))
    if answer is not None:
        row = [NONE if (pattern[i] or inner[i]) else Elem(aidx[i]) for i in range(n)]
    else:
        row = [NONE if pattern[i] else Elem(ANS(BV(i))) for i in range(n)]
    for g, res in nodeh.decode_cases(nc, out.mem, nc.m.cell('ret', 0)):
        g = z3.And(g, z3.Not(out.raised))
        if res is None:
            obls.append(('a result is returned', g))
        else:
            obls += [(nm, z3.And(g, c)) for nm, c in nodeh.compare_value(res, [row], strict=True)]

    def replay(model, ent):
        # fixed witnesses through the whole slicing pipeline: the array [[0, 10], X, [30, 40, 50], [60]] sliced with [[0], None, [0, 2], []]
        # (X = a list, or None when the array itself is option-type): values, and the validity check on the answer
        opt = inner is not None
        base = 'i64 7 0 10 20 30 40 50 60 listoffset64 5 0 2 3 6 7 ' + ('option64 4 0 -1 2 3 ' if opt else '')
        sl = 'getitem 1 missing 4 0 -1 1 2 jagged 4 0 1 3 3 array 3 0 0 2'
        exp = [[0], None, [30, 50], []]
        k1, got = fullnative.akrun(base + sl)
        k2, val = fullnative.akrun(base + sl + ' validity')
        payload = dict(program=base + sl, native=[k1, got], validity=[k2, val], expected=exp)
        if k1 != 'OK' or got != exp or k2 != 'OK' or val:
            return True, '%s[[[0], None, [0, 2], []]]: native library answers %s %s, validity of the answer: %s %r (expected %s, valid)' % (
                '[[0, 10], None, [30, 40, 50], [60]]' if opt else '[[0, 10], [20], [30, 40, 50], [60]]', k1, str(got)[:120], k2, str(val)[:160], exp), payload
        return False, 'native library agrees (%s, valid)' % (got,), payload
    return mdischarge(nc.m, 'getitem_next_missing_jagged slice=%s content answers %s' % (''.join('N' if x else 'v' for x in pattern), 'option-type ' + ''.join('N' if x else 'v' for x in inner) if inner is not None else 'plain'),
                      obls, [], replay=replay, prefer=[o <= 4 for o in offs] + [lin <= 8, nc.lencontent <= 8],
                      extra=dict(bounds='%d slice entries (None pattern concrete: case split), jagged offsets and the length of the array sliced symbolic; the content\'s answer is %s' % (
                          n, 'a real IndexedOptionArray64 (pattern concrete, index values symbolic)' if inner is not None else 'opaque')))


def jobs_missing_jagged(tier):
    q = [((0, 1, 0), None), ((0, 1, 0), (0, 1, 0)), ((1, 0), (0, 1)), ((0, 0), (1, 0))]
    if tier != 'quick':
        q += [((1, 1), None), ((0, 1, 0, 0), (0, 0, 1, 0)), ((0,), (0,)), ((1, 0, 1), (0, 0, 0)), ((0, 0, 0), None)]
    return [(h_missing_jagged, a, 1800) for a in q]


def jobs_missing(tier):
    q = [((0, 1, 0), 2, 2), ((1, 0), 3, 1), ((0, 0), 1, 3)] if tier == 'quick' else [((0, 1, 0), 3, 3), ((1, 1), 2, 2), ((0,), 3, 2), ((1, 0, 0, 1), 2, 2), ((0, 1), 0, 2)]
    return [(h_missing, a, 1800) for a in q]


# ------------------------------------------------------------------------------------------------ C01: a second index array (NumPy-style advanced indexing)
@guard
def h_getitem_next_array_advanced(cls, dims, nidx):
    """x[rows, cols] (the second of two index arrays reaching a list node): `advanced` pairs list i with entry advanced[i] of the column array, so
    the answer has one item per list: item (one negative wrap) cols[advanced[i]] of list i; raises exactly when one of those pairs is out of
    range (stated for pairings that use every entry of `cols`, as broadcasting the index arrays together guarantees; an entry no list is
    paired with may or may not be checked)"""
    lens0 = dims
    nc = NodeCtx(['LOA', 'LA', 'RA', 'IDX', 'CNT', 'UTL', 'KD', 'IDS', 'SLC'], [], unwind=max(10, 2 * len(node_lens(cls, dims)) + nidx + 8))
    this, lists, starts, offs, short = list_node(nc, cls, lens0)
    lens = node_lens(cls, lens0)
    n = len(lens)
    if n == 0:
        raise Unsupported('no lists')
    tail, _ = empty_tail_and_advanced(nc)
    a1 = z3.Array('advdata', z3.BitVecSort(64), z3.BitVecSort(64))
    av = [z3.Select(a1, BV(i)) for i in range(n)]
    for a in av:
        nc.m.assume(a >= 0, a < nidx)
    advdata = nc.m.array('advdata', ('i', 64), n, const=True)
    cells = {}
    nc.index_cells(cells, 0, advdata, BV(0), BV(n))
    adv = nc.m.record('advanced2', cells, const=True)
    data = nc.m.array('slicedata', ('i', 64), nidx, const=True)
    a0 = z3.Array('slicedata', z3.BitVecSort(64), z3.BitVecSort(64))
    iv = [z3.Select(a0, BV(k)) for k in range(nidx)]
    shape = nc.m.record('sliceshape', {0: (BV(nidx), 8)}, const=True)
    strides = nc.m.record('slicestrides', {0: (BV(1), 8)}, const=True)
    cells = {0: (nc.vptr_of('N7awkward12SliceArrayOfIlEE', 'SLC'), 8)}
    nc.index_cells(cells, 8, data, BV(0), BV(nidx))
    cells.update({64: (shape, 8), 72: (Ptr('sliceshape', 8), 8), 80: (Ptr('sliceshape', 8), 8),
                  88: (strides, 8), 96: (Ptr('slicestrides', 8), 8), 104: (Ptr('slicestrides', 8), 8), 112: (BV(0, 8), 1)})
    sl = nc.m.record('slicearray', cells, const=True)
    nc.m.record('ret', {})
    out = nc.m.call('_ZNK7awkward%s12getitem_nextERKNS_12SliceArrayOfIlEERKNS_5SliceERKNS_7IndexOfIlEE' % short, [Ptr('ret', 0), this, sl, tail, adv])

    def pick(i):
        v = iv[0]
        for k in range(1, nidx):
            v = z3.If(av[i] == k, iv[k], v)
        return v
    picked = [pick(i) for i in range(n)]
    regs = [z3.If(p < 0, p + L, p) for p, L in zip(picked, lens)]
    inr = z3.And([z3.And(r >= 0, r < L) for r, L in zip(regs, lens)])
    onto = z3.And([z3.Or([a == k for a in av]) for k in range(nidx)])          # every column entry is paired with some list (always so when the arrays were broadcast together)
    anyoor = z3.Or([z3.Not(z3.And(z3.If(v < 0, v + L, v) >= 0, z3.If(v < 0, v + L, v) < L)) for v in iv for L in lens])
    obls = [('raises exactly when a paired index is out of range for its list (every entry paired)', z3.And(onto, z3.simplify(out.raised) != z3.Not(inr))),
            ('a paired index out of range raises', z3.And(z3.Not(inr), z3.Not(out.raised))),
            ('raises only if some entry is out of range for some list', z3.And(out.raised, z3.Not(anyoor)))]
    okp = z3.And(inr, z3.Not(out.raised))
    rp = nc.m.cell('ret', 0)
    if rp is not None and any(q.obj is not None for g, q in nodeh.ptr_cases(rp)):
        res = decode(nc, out.mem, rp)
        got = value(res)
        want = [Elem(starts[i] + regs[i]) for i in range(n)]
        obls += [(nm, z3.And(okp, c)) for nm, c in compare(got, want)]

    def replay(model, ent):
        ev = lambda t: model.eval(t, model_completion=True).as_signed_long()
        vals = [ev(v) for v in iv]
        adv_ = [ev(a) for a in av]
        lc = ev(nc.lencontent)
        if lc > 200:
            return False, 'content too long to replay', {}
        head, inp = node_program(nc, model, lc)
        # x[[0, 1, ..., n-1], cols'] with cols'[i] = cols[advanced[i]]: the row array makes advanced the identity, which is the same pairing
        cols = [vals[a] for a in adv_]
        prog = head + 'getitem 2 array %s array %s' % (fullnative.ints(range(n)), fullnative.ints(cols))
        try:
            exp = [inp[i][c] for i, c in enumerate(cols)]
        except IndexError:
            exp = None
        kind, got = fullnative.akrun(prog)
        payload = dict(program=prog, native=[kind, got], expected=exp, advanced=adv_, cols=vals)
        if exp is None:
            if kind != 'ERR':
                return True, '%s lists %s [rows, %s]: an index is out of range, but the native library returns %s %s' % (cls, inp, cols, kind, got), payload
            return False, 'native library raises, as NumPy does', payload
        if kind != 'OK' or got != exp:
            return True, '%s lists %s [%s, %s]: native library %s %s, NumPy gives %s' % (cls, inp, list(range(n)), cols, kind, str(got)[:150], exp), payload
        return False, 'native library agrees (%s)' % got, payload
    return mdischarge(nc.m, '%s::getitem_next(SliceArray64, advanced) shape=%s n=%d' % (cls, ','.join(map(str, dims)), nidx), obls, [('all in range', inr)] if min(lens) > 0 else [],
                      replay=replay, prefer=[z3.And(v >= -6, v <= 6) for v in iv] + [nc.lencontent <= 24] + [o <= 20 for o in offs],
                      extra=dict(bounds='list lengths %s, %d column entries (case split); column values any int64, pairing (advanced) symbolic; offsets origin symbolic' % (lens, nidx)))


def jobs_advanced(tier):
    shapes = [(2, 1), (3,)] if tier == 'quick' else [(2, 1), (3,), (1, 0, 2), (2, 2, 2)]
    regs = [(2, 2)] if tier == 'quick' else [(2, 2), (3, 1), (1, 3)]
    js = []
    for cls in ('ListOffsetArray64', 'ListArray64', 'RegularArray'):
        for lens in (regs if cls == 'RegularArray' else shapes):
            # (a range *after* an index array only spreads the pairing, which no later item may consume - "advanced indexes separated by basic
            # indexes is not permitted" - so h_getitem_next_range(advanced=True) is not scheduled: nothing observable depends on it)
            for nidx in ((2,) if tier == 'quick' else (1, 2, 3)):
                js.append((h_getitem_next_array_advanced, (cls, lens, nidx), 1800))
    return js


# ------------------------------------------------------------------------------------------------ records addressed by field name (concrete std::string objects)
def _string_cells(cells, base, objname, text):
    """std::string (libstdc++ SSO layout) holding a short concrete text at cells[base..base+32)"""
    assert len(text) <= 15
    cells[base] = (Ptr(objname, base + 16), 8)
    cells[base + 8] = (BV(len(text)), 8)
    for j, ch in enumerate(text.encode() + b'\0'):
        cells[base + 16 + j] = (BV(ch, 8), 1)
    for j in range(len(text) + 1, 16):
        cells[base + 16 + j] = (BV(0, 8), 1)


def _read_string(mem, p):
    """concrete text of the std::string at pointer p (None if not concrete)"""
    cs = [(g, q) for g, q in nodeh.ptr_cases(p) if q.obj is not None]
    if len(cs) != 1:
        return None
    o, base = mem.o[cs[0][1].obj], cs[0][1].off
    if not isinstance(base, int):
        b = z3.simplify(base)
        if not z3.is_bv_value(b):
            return None
        base = b.as_signed_long()
    if not hasattr(o, 'cells') or base + 8 not in o.cells:
        return None
    n = z3.simplify(o.cells[base + 8][0])
    if not z3.is_bv_value(n):
        return None
    dp = o.cells[base][0]
    dcs = [(g, q) for g, q in nodeh.ptr_cases(dp) if q.obj is not None]
    if len(dcs) != 1:
        return None
    do, doff = mem.o[dcs[0][1].obj], dcs[0][1].off
    out = []
    for j in range(n.as_long()):
        if hasattr(do, 'cells'):
            c = do.cells.get(doff + j)
            v = z3.simplify(c[0]) if c else None
        else:
            v = z3.simplify(z3.Select(do.arr, z3.simplify(doff + j)))
        if v is None or not z3.is_bv_value(v):
            return None
        out.append(v.as_long())
    return bytes(out).decode('latin1')


def string_stubs(nc):
    """libstdc++ entry points that stay out of line, on concrete short strings"""
    def s_compare(eng, fr, ins, st, name, argv):
        a, b = _read_string(st.mem, argv[0]), _read_string(st.mem, argv[1])
        if a is None or b is None:
            raise Unsupported('std::string::compare on a string that is not concrete')
        return z3.BitVecVal((a > b) - (a < b), 32)

    def s_stoi(eng, fr, ins, st, name, argv):
        a = _read_string(st.mem, argv[0])
        if a is None:
            raise Unsupported('std::stoi on a string that is not concrete')
        try:
            return z3.BitVecVal(int(a), 32)
        except ValueError:
            return ('raise',)
    def _bytes(st, p, n):
        cs = [(g, q) for g, q in nodeh.ptr_cases(p) if q.obj is not None]
        if len(cs) != 1:
            raise Unsupported('memcmp on a merged pointer')
        o, off = st.mem.o[cs[0][1].obj], cs[0][1].off
        out = []
        for j in range(n):
            if hasattr(o, 'cells'):
                c = o.cells.get(off + j)
                if c is None or c[1] != 1:
                    raise Unsupported('memcmp on cells that are not bytes')
                out.append(c[0])
            else:
                out.append(z3.Select(o.arr, z3.simplify(off + j)))
        return out

    def s_memcmp(eng, fr, ins, st, name, argv):
        n = z3.simplify(argv[2])
        if not z3.is_bv_value(n):
            raise Unsupported('memcmp with a symbolic length')
        a, b = _bytes(st, argv[0], n.as_long()), _bytes(st, argv[1], n.as_long())
        r = z3.BitVecVal(0, 32)
        for x, y in reversed(list(zip(a, b))):
            r = z3.If(x == y, r, z3.If(z3.ULT(x, y), z3.BitVecVal(-1, 32), z3.BitVecVal(1, 32)))
        return z3.simplify(r)
    def s_errno(eng, fr, ins, st, name, argv):
        if 'errno!' not in st.mem.o:
            eng.new_record(st.mem, 'errno!', 4, tag='heap')
            st.mem.o['errno!'].cells[0] = (z3.BitVecVal(0, 32), 4)
        return Ptr('errno!', 0)

    def s_strtol(eng, fr, ins, st, name, argv):
        p, endp, base = argv
        cs = [(g, q) for g, q in nodeh.ptr_cases(p) if q.obj is not None]
        if len(cs) != 1 or not z3.is_bv_value(z3.simplify(base)) or z3.simplify(base).as_long() != 10:
            raise Unsupported('strtol on a merged pointer or a base other than 10')
        o, off = st.mem.o[cs[0][1].obj], cs[0][1].off
        text = []
        for j in range(64):
            c = o.cells.get(off + j) if hasattr(o, 'cells') else None
            v = z3.simplify(c[0]) if c else None
            if v is None or not z3.is_bv_value(v):
                raise Unsupported('strtol on text that is not concrete')
            if v.as_long() == 0:
                break
            text.append(chr(v.as_long()))
        t = ''.join(text)
        mm = re.match(r'[ \t\n\v\f\r]*[+-]?[0-9]+', t)
        used = mm.end() if mm else 0
        val = int(mm.group(0)) if mm else 0
        if not eng.is_null(endp):
            eng.store(st, endp, Ptr(cs[0][1].obj, off + used), 'i8*', fr.mod, 'strtol')
        return z3.BitVecVal(val, 64)
    from .mharness import stub_throw
    return {'memcmp': s_memcmp, 'bcmp': s_memcmp, '__errno_location': s_errno, 'strtol': s_strtol,
            '_ZSt24__throw_invalid_argumentPKc': stub_throw, '_ZSt20__throw_out_of_rangePKc': stub_throw, '_ZN7awkward4util5quoteE*': nodeh.s_empty_string,
            '_ZNKSt7__cxx1112basic_stringIcSt11char_traitsIcESaIcEE7compareERKS4_': s_compare,
            '_ZNSt7__cxx114stoiERKNS_12basic_stringIcSt11char_traitsIcESaIcEEEPmi': s_stoi}


def build_named_record(nc, names, length, name='node', tag='', first=True, space=0):
    """RecordArray whose fields have the given (concrete, short) names"""
    this, vals, lens = build_record(nc, len(names), length, name=name, tag=tag, first=first, space=space)
    fo, sz, al, fields = nc.layout_of('REC', '_ZNK7awkward11RecordArray6lengthEv')
    cells = {}
    for i, nm in enumerate(names):
        _string_cells(cells, 32 * i, name + '_keys', nm)
    nc.m.record(name + '_keys', cells, const=True)
    nb = 32 * len(names)
    nc.m.record(name + '_lookup', {0: (Ptr(name + '_keys', 0), 8), 8: (Ptr(name + '_keys', nb), 8), 16: (Ptr(name + '_keys', nb), 8)}, const=True)
    o = nc.m.mem.o[name]
    o.cells[fo[3]] = (Ptr(name + '_lookup', 0), 8)
    return this, vals, lens


def key_position(names, key):
    """what a key means for a record array with these field names: the position of the field of that name, else the position it spells the
    way tuple fields are named ("0", "1", ...: std::to_string of the position), else nothing"""
    names = list(names)
    if key in names:
        return names.index(key)
    for i in range(len(names)):
        if key == str(i):
            return i
    return None


KEY_DRIVER = r"""
#include <cstdio>
#include <cstring>
#include <string>
#include <vector>
#include <memory>
#include <stdexcept>
#include "awkward/Index.h"
#include "awkward/Identities.h"
#include "awkward/array/NumpyArray.h"
#include "awkward/array/RecordArray.h"
using namespace awkward;
int main(int argc, char** argv) {
  // argv: key, expected position (-1: not a field), field names...
  std::string key(argv[1]);
  long want = atol(argv[2]);
  int nf = argc - 3;
  ContentPtrVec contents;
  util::RecordLookupPtr lookup = std::make_shared<util::RecordLookup>();
  for (int k = 0; k < nf; k++) {
    Index64 v(2);
    v.setitem_at_nowrap(0, 100 * k); v.setitem_at_nowrap(1, 100 * k + 1);
    contents.push_back(std::make_shared<NumpyArray>(v));
    lookup.get()->push_back(std::string(argv[3 + k]));
  }
  RecordArray rec(Identities::none(), util::Parameters(), contents, lookup, 2);
  long got = -1; int has = -1; std::string how;
  try { has = rec.haskey(key) ? 1 : 0; }
  catch (std::exception& e) { how += std::string(" haskey raises: ") + e.what(); }
  catch (...) { how += " haskey raises"; }
  try {
    ContentPtr f = rec.field(key);
    got = (long)(*reinterpret_cast<int64_t*>(dynamic_cast<NumpyArray*>(f.get())->data())) / 100;
  }
  catch (std::invalid_argument& e) { got = -1; }
  catch (std::exception& e) { got = -2; how += std::string(" field raises something other than invalid_argument: ") + e.what(); }
  long fi = -1;
  try { fi = (long)rec.fieldindex(key); } catch (...) { fi = -1; }
  printf("field=%ld fieldindex=%ld haskey=%d%s\n", got, fi, has, how.c_str());
  return (got == want && fi == want && has == (want >= 0 ? 1 : 0)) ? 0 : 1;
}
"""


@guard
def h_record_field_key(names, key):
    """RecordArray::field(key) / fieldindex(key) / haskey(key): the content stored under that name, whatever its position; a key that is not a
    field name is a position only when it spells one in range the way tuple fields are named ("0", "1", ...) and is refused (std::invalid_argument;
    haskey answers false and never raises) otherwise - also when it merely starts with a number, or spells one too large for any integer type"""
    names = tuple(names)
    nc = NodeCtx(['REC', 'IA', 'IDX', 'CNT', 'UTL', 'KD', 'IDS'], [], unwind=max(14, 2 * len(names) + 10))
    nc.m.eng.stubs.update(string_stubs(nc))
    nc.m.eng.stubs['_ZNSt7__cxx119to_stringEl'] = s_to_string
    nc.m.eng.stubs['_ZNSt7__cxx119to_stringEi'] = s_to_string
    nc.m.eng.stubs['_ZNSt7__cxx1112basic_stringIcSt11char_traitsIcESaIcEE12_M_constructEmc'] = s_string_fill
    this, vals, lens = build_named_record(nc, names, 2)
    cells = {}
    _string_cells(cells, 0, 'key', key)
    kp = nc.m.record('key', cells, const=True)
    nc.m.record('ret', {})
    out = nc.m.call('_ZNK7awkward11RecordArray5fieldERKNSt7__cxx1112basic_stringIcSt11char_traitsIcESaIcEEE', [Ptr('ret', 0), this, kp])
    want = key_position(names, key)
    obls = [('raises exactly when the name is neither a field nor a position in range', z3.simplify(out.raised) != z3.BoolVal(want is None))]
    if want is None:
        ty = out.mem.o.get('exc!type')
        if ty is not None:
            obls.append(('a key that is not a field is refused with std::invalid_argument', z3.And(out.raised, ty.cells[0][0] != nc.m.eng.typeid_of('_ZTISt16invalid_argument'))))
    if want is not None:
        res = decode(nc, out.mem, nc.m.cell('ret', 0))
        BASE = 1 << 32
        if res['cls'] != 'opaque':
            obls.append(('the field content itself is returned', z3.BoolVal(True)))
        else:
            obls.append(('the content stored under that name is returned', z3.Select(res['atoms'], BV(0)) != BV(want * BASE)))
    o2 = nc.m.call('_ZNK7awkward11RecordArray10fieldindexERKNSt7__cxx1112basic_stringIcSt11char_traitsIcESaIcEEE', [this, kp])
    obls.append(('fieldindex raises exactly when the key is not a field', z3.simplify(o2.raised) != z3.BoolVal(want is None)))
    if want is not None:
        obls.append(('fieldindex is the position of that field', z3.And(z3.Not(o2.raised), o2.ret != want)))
    o3 = nc.m.call('_ZNK7awkward11RecordArray6haskeyERKNSt7__cxx1112basic_stringIcSt11char_traitsIcESaIcEEE', [this, kp])
    obls.append(('haskey never raises', o3.raised))
    if o3.ret is not None:
        r3 = o3.ret if o3.ret.size() == 1 else z3.Extract(0, 0, o3.ret)
        obls.append(('haskey is %s' % (want is not None), z3.And(z3.Not(o3.raised), (r3 == 1) != z3.BoolVal(want is not None))))

    def replay(model, ent):
        try:
            exe = fullnative.link_driver(KEY_DRIVER, 'reckey')
        except Exception as e:      # noqa
            return False, 'replay driver did not build: %s' % str(e)[-400:], {}
        import subprocess, os
        r = subprocess.run([exe, key, str(-1 if want is None else want)] + list(names), capture_output=True, text=True, timeout=30,
                           env=dict(os.environ, ASAN_OPTIONS='detect_leaks=0'), errors='replace')
        payload = dict(names=list(names), key=key, expected_position=want, native=r.stdout.strip())
        if r.returncode != 0:
            return True, 'record array %s asked for the key %r (a field: %s): native %s' % (list(names), key, want, r.stdout.strip() or r.stderr[-200:]), payload
        return False, 'native agrees (%s)' % r.stdout.strip(), payload
    return mdischarge(nc.m, 'RecordArray%s::field / fieldindex / haskey ("%s")' % (list(names), key), obls, [], replay=replay,
                      extra=dict(bounds='field names and key concrete (case split)'))


@guard
def h_record_mergemany_named(names_a, names_b, la, lb):
    """RecordArray::mergemany of two record arrays whose fields are matched by name: with the same set of names (in any order) record i of the
    result holds, under each name, the first operand's then the second operand's entries of the field with *that name*; different sets of
    names are refused"""
    names_a, names_b = tuple(names_a), tuple(names_b)
    nf = len(names_a)
    nc = NodeCtx(['REC', 'IA', 'IDX', 'CNT', 'UTL', 'KD', 'IDS', 'EA'], [], unwind=max(16, 6 * nf + la + lb + 12))
    nc.m.eng.stubs.update(string_stubs(nc))
    a, va, lensa = build_named_record(nc, names_a, la, name='node')
    b, vb, lensb = build_named_record(nc, names_b, lb, name='nodeb', tag='b', first=False, space=16)
    install_merge_stub(nc)
    nc.m.record('othersbuf', {0: (b, 8), 8: (NULL, 8)}, const=True)
    others = nc.m.record('others', {0: (Ptr('othersbuf', 0), 8), 8: (Ptr('othersbuf', 16), 8), 16: (Ptr('othersbuf', 16), 8)}, const=True)
    nc.m.record('ret', {})
    out = nc.m.call('_ZNK7awkward11RecordArray9mergemanyERKSt6vectorISt10shared_ptrINS_7ContentEESaIS4_EE', [Ptr('ret', 0), a, others])
    same = sorted(names_a) == sorted(names_b) and len(names_b) == nf
    obls = [('raises exactly when the sets of field names differ', z3.simplify(out.raised) != z3.BoolVal(not same))]
    if same:
        perm = [names_b.index(nm) for nm in names_a]            # field k of the result takes field perm[k] of the second operand
        want = va + [[vb[i][perm[k]] for k in range(nf)] for i in range(lb)]
        for g, res in nodeh.decode_cases(nc, out.mem, nc.m.cell('ret', 0)):
            if res is None:
                obls.append(('a result is returned', z3.And(g, z3.Not(out.raised))))
                continue
            if res['cls'] != 'record' or len(res['contents']) != nf:
                obls.append(('the result is a record array with the same fields', g))
                continue
            obls.append(('the result has as many records as both operands together', z3.And(g, res['length'] != la + lb)))
            for i in range(la + lb):
                for k in range(nf):
                    obls += [(nm, z3.And(g, c)) for nm, c in compare(nodeh.at(res['contents'][k], i), want[i][k], 'record %d field "%s"' % (i, names_a[k]))]

    def replay(model, ent):
        ev = lambda t: model.eval(t, model_completion=True).as_signed_long()
        prog, exp = '', []
        for tagk, (L, lens, names) in enumerate(((la, lensa, names_a), (lb, lensb, names_b))):
            ls = [min(ev(x), L + 3) for x in lens]
            for k, n in enumerate(ls):
                prog += 'i64 %s ' % fullnative.ints([1000 * tagk + 100 * names_a.index(names[k]) + j if names[k] in names_a else 7000 + j for j in range(n)])
            prog += 'record %d %d %s ' % (len(names), L, ' '.join(names))
            if same:
                exp += [{nm: 1000 * tagk + 100 * names_a.index(nm) + j for nm in names_a} for j in range(L)]
        prog += 'merge'
        if not same:
            kind_, got = fullnative.akrun(prog)
            payload = dict(program=prog, native=[kind_, got])
            if kind_ != 'ERR':
                return True, 'records %s merged with records %s must be refused, the native library returns %s %s' % (list(names_a), list(names_b), kind_, str(got)[:150]), payload
            return False, 'native library raises, as expected', payload
        return akrun_check(prog, exp, 'merge of records %s (%d) with records %s (%d)' % (list(names_a), la, list(names_b), lb))
    return mdischarge(nc.m, 'RecordArray::mergemany %s x %d + %s x %d' % (list(names_a), la, list(names_b), lb), obls, [], replay=replay,
                      prefer=[x <= la + 2 for x in lensa] + [x <= lb + 2 for x in lensb],
                      extra=dict(bounds='field names concrete (case split), %d and %d records; field content lengths symbolic' % (la, lb)))


def jobs_record_named(tier):
    js = [(h_record_field_key, a, 900) for a in [(('a', 'b', 'c'), 'b'), (('x', 'y'), '1'), (('x', 'y'), 'q'), (('x', 'y'), '7'), (('ab', 'a'), 'a'),
                                                 (('x', 'y', 'z'), '1abc'), (('x', 'y'), ' 1'), (('x', 'y'), '+1'), (('x', 'y'), '01'), (('x', 'y'), '-0'),
                                                 (('x', 'y'), '99999999999'), (('1', '0'), '1'), (('x', 'y'), '')]]
    q = [(('x', 'y'), ('y', 'x'), 1, 2), (('a', 'b'), ('a', 'b'), 2, 1), (('a', 'b'), ('a', 'c'), 1, 1)]
    if tier != 'quick':
        q += [(('a', 'b', 'c'), ('c', 'a', 'b'), 1, 1), (('k',), ('k',), 0, 2), (('a', 'b'), ('b',), 1, 1)]
    return js + [(h_record_mergemany_named, a, 1800) for a in q]


def _lookup_names(mem, rl):
    """field names held by a RecordLookupPtr (pointer to the vector<string>), or None when null"""
    cs = [(g, q) for g, q in nodeh.ptr_cases(rl) if q.obj is not None]
    if not cs:
        return None
    if len(cs) != 1:
        raise Unsupported('record lookup pointer has %d cases' % len(cs))
    o, base = mem.o[cs[0][1].obj], cs[0][1].off
    b, e = o.cells[base][0], o.cells[base + 8][0]
    from .llbmc import is_ptr
    if not is_ptr(b):
        return []          # an empty vector (null begin)
    bc = [q for g, q in nodeh.ptr_cases(b) if q.obj is not None]
    ec = [q for g, q in nodeh.ptr_cases(e) if q.obj is not None]
    if not bc:
        return []
    qb, qe = bc[0], ec[0]
    if not isinstance(qb.off, int) or not isinstance(qe.off, int):
        raise Unsupported('record lookup buffer is not a record of string objects')
    out = []
    for off in range(qb.off, qe.off, 32):
        t = _read_string(mem, Ptr(qb.obj, off))
        if t is None:
            raise Unsupported('a field name of the result is not concrete')
        out.append(t)
    return out


@guard
def h_record_project(names, keys, length):
    """RecordArray::getitem_field(name) / getitem_fields(names): projecting one field gives that field's first `length` entries (the record count),
    whatever its position; projecting several gives a record array with exactly those fields, under those names, in the requested order, each
    still the content stored under its name, and the same number of records; an unknown name is refused"""
    names = tuple(names)
    single = isinstance(keys, str)
    klist = [keys] if single else list(keys)
    nc = NodeCtx(['REC', 'IA', 'IDX', 'CNT', 'UTL', 'KD', 'IDS'], [], unwind=max(16, 4 * len(names) + 4 * len(klist) + 10))
    nc.m.eng.stubs.update(string_stubs(nc))
    this, vals, lens = build_named_record(nc, names, length)
    nc.m.record('ret', {})
    BASE = 1 << 32
    known = all(k in names for k in klist)
    if single:
        cells = {}
        _string_cells(cells, 0, 'key', keys)
        kp = nc.m.record('key', cells, const=True)
        out = nc.m.call('_ZNK7awkward11RecordArray13getitem_fieldERKNSt7__cxx1112basic_stringIcSt11char_traitsIcESaIcEEE', [Ptr('ret', 0), this, kp])
    else:
        cells = {}
        for i, k in enumerate(klist):
            _string_cells(cells, 32 * i, 'keysbuf', k)
        nc.m.record('keysbuf', cells, const=True)
        nb = 32 * len(klist)
        kv = nc.m.record('keysvec', {0: (Ptr('keysbuf', 0), 8), 8: (Ptr('keysbuf', nb), 8), 16: (Ptr('keysbuf', nb), 8)}, const=True)
        out = nc.m.call('_ZNK7awkward11RecordArray14getitem_fieldsERKSt6vectorINSt7__cxx1112basic_stringIcSt11char_traitsIcESaIcEEESaIS7_EE', [Ptr('ret', 0), this, kv])
    obls = [('raises exactly when a requested name is not a field', z3.simplify(out.raised) != z3.BoolVal(not known))]
    if known:
        res = decode(nc, out.mem, nc.m.cell('ret', 0))
        if single:
            want = [Elem(BV(i + names.index(keys) * BASE)) for i in range(length)]
            obls += nodeh.compare_value(res, want)
        else:
            if res['cls'] != 'record' or len(res['contents']) != len(klist):
                obls.append(('the result is a record array with the requested fields', z3.BoolVal(True)))
            else:
                obls.append(('the number of records is unchanged', res['length'] != length))
                got_names = _lookup_names(out.mem, res['recordlookup'])
                obls.append(('the fields carry the requested names in the requested order (%s)' % got_names, z3.BoolVal(got_names != klist)))
                for j, k in enumerate(klist):
                    for i in range(length):
                        obls += compare(nodeh.at(res['contents'][j], i), Elem(BV(i + names.index(k) * BASE)), 'record %d field "%s"' % (i, k))

    def replay(model, ent):
        ev = lambda t: model.eval(t, model_completion=True).as_signed_long()
        prog = ''
        for k, n in enumerate(min(ev(x), length + 2) for x in lens):
            prog += 'i64 %s ' % fullnative.ints([100 * k + j for j in range(n)])
        prog += 'record %d %d %s ' % (len(names), length, ' '.join(names))
        prog += ('getfield %s' % keys) if single else ('getfields %d %s' % (len(klist), ' '.join(klist)))
        kind_, got = fullnative.akrun(prog)
        payload = dict(program=prog, native=[kind_, got])
        if not known:
            if kind_ != 'ERR':
                return True, 'records %s projected on %s must be refused, the native library returns %s %s' % (list(names), klist, kind_, str(got)[:150]), payload
            return False, 'native library raises, as expected', payload
        if single:
            exp = [100 * names.index(keys) + j for j in range(length)]
        else:
            exp = [{k: 100 * names.index(k) + j for k in klist} for j in range(length)]
        payload['expected'] = exp
        if kind_ != 'OK' or got != exp:
            return True, 'records %s projected on %s: native library %s %s, expected %s' % (list(names), keys if single else klist, kind_, str(got)[:200], exp), payload
        return False, 'native library agrees (%s)' % str(got)[:100], payload
    return mdischarge(nc.m, 'RecordArray%s::getitem_field%s(%s)' % (list(names), '' if single else 's', keys if single else klist), obls, [], replay=replay if klist else None,
                      extra=dict(bounds='field names and requested names concrete (case split), %d records, field content lengths symbolic' % length))


def jobs_record_project(tier):
    q = [(('a', 'b', 'c'), 'c', 2), (('a', 'b'), 'z', 1), (('a', 'b', 'c'), ('c', 'a'), 2), (('x', 'y'), ('y', 'q'), 1), (('x', 'y'), ('x', 'x'), 1)]
    if tier != 'quick':
        q += [(('a',), 'a', 0), (('a', 'b', 'c'), ('b',), 3), (('a', 'b', 'c'), ('c', 'b', 'a'), 1), (('x', 'y'), (), 2)]
    return [(h_record_project, a, 900) for a in q]


FIELDS_SIG = '14getitem_fieldsERKSt6vectorINSt7__cxx1112basic_stringIcSt11char_traitsIcESaIcEEESaIS7_EE'


@guard
def h_list_project(cls, dims, many=False):
    """getitem_field(name) / getitem_fields(names) of a list node: the list structure (number of lists, their lengths and which elements they
    hold, in order) is unchanged and every element is replaced by what the content answers for *that* element - projection commutes with the
    list level"""
    lens0 = node_lens(cls, dims)
    nc = NodeCtx(['LOA', 'LA', 'RA', 'IDX', 'CNT', 'UTL', 'KD', 'IDS'], [], unwind=max(8, sum(lens0) + len(lens0) + 6))
    nc.m.eng.stubs.update(string_stubs(nc))
    what = 'getitem_fields' if many else 'getitem_field'
    F = nc.derived_stub(FIELDS_SIG if many else BELOW_METHODS['getitem_field'][1], what)
    this, lists, starts, offs, short = list_node(nc, cls, dims)
    nc.m.record('ret', {})
    if many:
        cells = {}
        for i, k in enumerate(('k', 'j')):
            _string_cells(cells, 32 * i, 'keysbuf', k)
        nc.m.record('keysbuf', cells, const=True)
        kp = nc.m.record('keysvec', {0: (Ptr('keysbuf', 0), 8), 8: (Ptr('keysbuf', 64), 8), 16: (Ptr('keysbuf', 64), 8)}, const=True)
        cands = sorted([f for mod_ in nc.m.eng.mods for f in mod_.func_src if f.startswith('_ZNK7awkward%s14getitem_fieldsERKSt6vector' % short)], key=len)
        if not cands:
            raise Unsupported('getitem_fields of %s not found in the IR' % cls)
        out = nc.m.call(cands[0], [Ptr('ret', 0), this, kp])          # the shortest mangled name is the one-argument overload
    else:
        kc = {}
        _string_cells(kc, 0, 'key', 'k')
        kp = nc.m.record('key', kc, const=True)
        out = nc.m.call('_ZNK7awkward%s%s' % (short, BELOW_METHODS['getitem_field'][0]), [Ptr('ret', 0), this, kp])
    obls = [('projection does not raise', out.raised)]
    calls = [(pc, a) for pc, nm, a in out.trace if nm == what]
    obls.append(('the content is asked', z3.Not(z3.Or([pc for pc, _ in calls] + [z3.BoolVal(False)]))))
    for pc, a in calls:
        if many:
            same = z3.Or([gg for gg, qq in nodeh.ptr_cases(a[0]) if qq.obj == 'keysvec'] + [z3.BoolVal(False)])
            obls.append(('the content is asked for the same field names', z3.And(pc, z3.Not(same))))
        else:
            obls.append(('the content is asked for the same field name', z3.And(pc, z3.BoolVal(_read_string(out.mem, a[0]) != 'k'))))
    want = [[Elem(F(e.val)) for e in lst] for lst in lists]
    for g, res in nodeh.decode_cases(nc, out.mem, nc.m.cell('ret', 0)):
        if res is None:
            obls.append(('a result is returned', z3.And(g, z3.Not(out.raised))))
        else:
            obls += [(nm, z3.And(g, c)) for nm, c in nodeh.compare_value(res, want)]

    def replay(model, ent):
        lc = model.eval(nc.lencontent, model_completion=True).as_signed_long()
        if lc > 200:
            return False, 'content too long to replay (%d)' % lc, dict()
        head, inp = node_program(nc, model, lc)
        ntoks = head.split()
        cnt = int(ntoks[1])
        head = 'i64 %s i64 %s record 2 %d j k ' % (fullnative.ints(range(cnt)), fullnative.ints([500 + x for x in range(cnt)]), cnt) + ' '.join(ntoks[2 + cnt:]) + ' '
        if many:
            exp = [[{'k': 500 + x, 'j': x} for x in lst] for lst in inp]
            return akrun_check(head + 'getfields 2 k j', exp, '%s %s of records::getitem_fields' % (cls, inp))
        exp = [[500 + x for x in lst] for lst in inp]
        return akrun_check(head + 'getfield k', exp, '%s %s of records::getitem_field' % (cls, inp))
    return mdischarge(nc.m, '%s::%s shape=%s' % (cls, what, ','.join(map(str, dims))), obls, [], replay=replay,
                      prefer=[nc.lencontent <= 24] + [o <= 20 for o in offs],
                      extra=dict(bounds='shape %s concrete (case split), origins and content length symbolic' % (dims,)))


def jobs_project(tier):
    js = list(jobs_record_project(tier))
    shapes = [(2, 0, 1), (0,)] if tier == 'quick' else [(2, 0, 1), (0,), (1, 1), (3,), (0, 0, 2)]
    regs = [(2, 2), (0, 3)] if tier == 'quick' else [(2, 2), (0, 3), (3, 1), (1, 0)]
    for cls in ('ListOffsetArray64', 'ListArray64', 'RegularArray'):
        for d in (regs if cls == 'RegularArray' else shapes):
            js.append((h_list_project, (cls, d), 1800))
            js.append((h_list_project, (cls, d, True), 1800))
    return js


# ------------------------------------------------------------------------------------------------ C06: NumpyArray::sort_next / argsort_next (the leaf of every sort)
NP_DTYPES = {   # name -> (util::dtype value, element kind, itemsize, format char, signedness)
    'bool': (1, ('i', 8), 1, '?', 'u'), 'int8': (2, ('i', 8), 1, 'b', 's'), 'int16': (3, ('i', 16), 2, 'h', 's'), 'int32': (4, ('i', 32), 4, 'i', 's'), 'int64': (5, ('i', 64), 8, 'l', 's'),
    'uint8': (6, ('i', 8), 1, 'B', 'u'), 'uint16': (7, ('i', 16), 2, 'H', 'u'), 'uint32': (8, ('i', 32), 4, 'I', 'u'), 'uint64': (9, ('i', 64), 8, 'L', 'u'),
    'float32': (11, ('f', 32), 4, 'f', 'f'), 'float64': (12, ('f', 64), 8, 'd', 'f')}


def build_numpy1d(nc, name, n, dtype):
    """contiguous one-dimensional NumpyArray of the given dtype over a symbolic buffer -> (this, element terms)"""
    from .cpp01 import struct_of
    code, kind, isz, fmt, sgn = NP_DTYPES[dtype]
    mod = module_of(SRC['NA'])
    fo, sz, al, fields = mod.types.struct_layout(struct_of(mod, '_ZNK7awkward10NumpyArray6lengthEv'))
    data = nc.m.array(name + '_data', kind, max(1, n), const=True)
    esort = (z3.Float32() if kind[1] == 32 else z3.Float64()) if kind[0] == 'f' else z3.BitVecSort(kind[1])
    a0 = z3.Array(name + '_data', z3.BitVecSort(64), esort)
    nc.m.record(name + '_shape', {0: (BV(n), 8)}, const=True)
    nc.m.record(name + '_strides', {0: (BV(isz), 8)}, const=True)
    cells = nc.content_header(name, nc.vptr_of('N7awkward10NumpyArrayE', 'NA'))
    cells.update({fo[1]: (data, 8), fo[1] + 8: (NULL, 8), fo[2]: (BV(0, 32), 4),
                  fo[4]: (Ptr(name + '_shape', 0), 8), fo[4] + 8: (Ptr(name + '_shape', 8), 8), fo[4] + 16: (Ptr(name + '_shape', 8), 8),
                  fo[5]: (Ptr(name + '_strides', 0), 8), fo[5] + 8: (Ptr(name + '_strides', 8), 8), fo[5] + 16: (Ptr(name + '_strides', 8), 8),
                  fo[6]: (BV(0), 8), fo[7]: (BV(isz), 8),
                  fo[8]: (Ptr(name, fo[8] + 16), 8), fo[8] + 8: (BV(1), 8), fo[8] + 16: (BV(ord(fmt), 8), 1), fo[8] + 17: (BV(0, 8), 1),
                  fo[9]: (BV(code, 32), 4)})
    this = nc.m.record(name, cells, const=True)
    xs = [z3.Select(a0, BV(i)) for i in range(n)]
    for x in xs:
        if dtype == 'bool':
            nc.m.assume(z3.ULE(x, 1))
    return this, xs, fo


def _before(x, y, sgn, ascending):
    """strictly before in the documented order: NaN first in both directions, then ascending / descending"""
    if sgn == 'f':
        nx, ny = z3.fpIsNaN(x), z3.fpIsNaN(y)
        lt = z3.fpLT(x, y) if ascending else z3.fpGT(x, y)
        return z3.And(z3.Not(ny), z3.Or(nx, lt))
    if sgn == 's':
        return (x < y) if ascending else (x > y)
    return z3.ULT(x, y) if ascending else z3.UGT(x, y)


def _same_key(x, y, sgn):
    if sgn == 'f':
        return z3.Or(z3.fpEQ(x, y), z3.And(z3.fpIsNaN(x), z3.fpIsNaN(y)))
    return x == y


@guard
def h_numpy_sort(dtype, parents, ascending, stable, arg):
    """NumpyArray::sort_next / argsort_next on a one-dimensional contiguous array: the groups are the runs of equal parents; sort: every group of the
    answer is a rearrangement of the same group of the input, ordered as requested (NaN first), and no value crosses a group boundary; argsort:
    group-local positions that realise that order (equal keys in input order when stable)"""
    import itertools as _it
    parents = tuple(parents)
    n = len(parents)
    code, kind, isz, fmt, sgn = NP_DTYPES[dtype]
    nc = NodeCtx(['NA', 'IDX', 'CNT', 'UTL', 'KD', 'IDS', 'RA'], [], unwind=max(64, 8 * n + 60))
    from .c06 import stub_new
    s_new0 = nc.m.eng.stubs['_Znwm']

    def s_new_mixed(eng, fr, ins, st, name, argv):
        # buffers allocated inside the kernels / libstdc++ algorithms are plain byte buffers (as in the kernel-level C06 harness); C++ objects
        # created by the library's own methods stay records
        fn = fr.f.name
        if 'awkward_sort' in fn or 'awkward_argsort' in fn or 'awkward_quick' in fn or fn.startswith('_ZSt') or fn.startswith('_ZNSt'):
            return stub_new(eng, fr, ins, st, name, argv)
        return s_new0(eng, fr, ins, st, name, argv)
    nc.m.eng.stubs.update({'_ZnwmRKSt9nothrow_t': stub_new, '_Znwm': s_new_mixed})          # nothrow: std::stable_sort's temporary buffer (never NULL here)
    this, xs, fo = build_numpy1d(nc, 'node', n, dtype)
    if sgn == 'f' and not stable:
        # the unstable kernel (quick_sort) does not implement the NaN-first convention: recorded as a known finding of the kernel-level check
        # (known_findings.json, awkward_quick_sort_float*); this harness covers the remaining inputs
        for x in xs:
            nc.m.assume(z3.Not(z3.fpIsNaN(x)))
    groups = []
    for i, p in enumerate(parents):
        if i == 0 or p != parents[i - 1]:
            groups.append([])
        groups[-1].append(i)
    outlength = (max(parents) + 1) if parents else 0

    def index64(name, vals):
        arr = z3.K(z3.BitVecSort(64), BV(0))
        for i, v in enumerate(vals):
            arr = z3.Store(arr, BV(i), BV(v))
        d = nc.m.array(name + '_data', ('i', 64), max(1, len(vals)), const=True, arr=arr)
        cells = {}
        nc.index_cells(cells, 0, d, BV(0), BV(len(vals)))
        return nc.m.record(name, cells, const=True)
    starts = index64('starts', [g[0] for g in groups])
    pidx = index64('parentsidx', list(parents))
    shifts = index64('shifts', [])
    nc.m.record('ret', {})
    asc, stb = z3.BitVecVal(1 if ascending else 0, 1), z3.BitVecVal(1 if stable else 0, 1)
    if arg:
        cands = [f for mod_ in nc.m.eng.mods for f in mod_.func_src if f.startswith('_ZNK7awkward10NumpyArray12argsort_nextE')]
        out = nc.m.call(cands[0], [Ptr('ret', 0), this, BV(1), starts, shifts, pidx, BV(outlength), asc, stb])
    else:
        cands = [f for mod_ in nc.m.eng.mods for f in mod_.func_src if f.startswith('_ZNK7awkward10NumpyArray9sort_nextE')]
        out = nc.m.call(cands[0], [Ptr('ret', 0), this, BV(1), starts, pidx, BV(outlength), asc, stb])
    obls = [('does not raise', out.raised)]
    # decode the result: a NumpyArray whose buffer holds n items of the input type (sort) / int64 (argsort)
    rp = nc.m.cell('ret', 0)
    cs = [(g, q) for g, q in nodeh.ptr_cases(rp) if q.obj is not None]
    if len(cs) != 1:
        raise Unsupported('result pointer has %d cases' % len(cs))
    ro, rb = out.mem.o[cs[0][1].obj], cs[0][1].off
    dp = ro.cells[rb + fo[1]][0]
    dcs = [(g, q) for g, q in nodeh.ptr_cases(dp) if q.obj is not None]
    if len(dcs) != 1:
        raise Unsupported('result buffer pointer has %d cases' % len(dcs))
    buf, boff = out.mem.o[dcs[0][1].obj], dcs[0][1].off
    want_kind = ('i', 64) if arg else kind
    if tuple(buf.kind) != tuple(want_kind):
        obls.append(('the result buffer has the element type %s (it is %s)' % (want_kind, tuple(buf.kind)), z3.BoolVal(True)))
        return mdischarge(nc.m, 'NumpyArray<%s>::%s parents=%s' % (dtype, 'argsort_next' if arg else 'sort_next', list(parents)), obls, [], replay=None)
    ys = [z3.Select(buf.arr, z3.simplify(boff + i)) for i in range(n)]
    shp = ro.cells[rb + fo[4]][0]
    for g in groups:
        tag = 'group at %d (%d items)' % (g[0], len(g))
        if arg:
            loc = [ys[i] for i in g]
            m_ = len(g)
            obls.append((tag + ': positions are group-local and form a rearrangement', z3.Not(z3.And([z3.And(p >= 0, p < m_) for p in loc] + [z3.Distinct(*loc) if m_ > 1 else z3.BoolVal(True)]))))

            def key(p):
                v = xs[g[0]]
                for j in range(1, m_):
                    v = z3.If(p == j, xs[g[j]], v)
                return v
            for a_ in range(m_ - 1):
                ka, kb = key(loc[a_]), key(loc[a_ + 1])
                obls.append((tag + ': consecutive positions are in the requested order', _before(kb, ka, sgn, ascending)))
                if stable:
                    obls.append((tag + ': equal keys keep their input order', z3.And(_same_key(ka, kb, sgn), loc[a_] > loc[a_ + 1])))
        else:
            ins_, outs_ = [xs[i] for i in g], [ys[i] for i in g]
            eq = (lambda a_, b_: z3.fpToIEEEBV(a_) == z3.fpToIEEEBV(b_)) if sgn == 'f' else (lambda a_, b_: a_ == b_)
            perm = z3.Or([z3.And([eq(outs_[i], ins_[pm[i]]) for i in range(len(g))] + [z3.BoolVal(True)]) for pm in _it.permutations(range(len(g)))])
            if sgn == 'f':      # NaN payloads may differ after a move through a register: compare NaNs as one value
                eq2 = lambda a_, b_: z3.Or(z3.fpToIEEEBV(a_) == z3.fpToIEEEBV(b_), z3.And(z3.fpIsNaN(a_), z3.fpIsNaN(b_)))
                perm = z3.Or([z3.And([eq2(outs_[i], ins_[pm[i]]) for i in range(len(g))] + [z3.BoolVal(True)]) for pm in _it.permutations(range(len(g)))])
            obls.append((tag + ': the group is a rearrangement of the same group of the input', z3.Not(perm)))
            for a_ in range(len(g) - 1):
                obls.append((tag + ': consecutive items are in the requested order', _before(outs_[a_ + 1], outs_[a_], sgn, ascending)))

    def replay(model, ent):
        raw = []
        for x in xs:
            if sgn == 'f' and z3.is_true(model.eval(z3.fpIsNaN(x), model_completion=True)):
                raw.append(0x7fc00000 if kind[1] == 32 else 0x7ff8000000000000)          # fpToIEEEBV of a NaN is unspecified in a model
                continue
            v = model.eval(z3.fpToIEEEBV(x) if sgn == 'f' else x, model_completion=True)
            raw.append(v.as_long())
        return native_numpy_sort(dtype, raw, list(parents), outlength, ascending, stable, arg, groups)
    return mdischarge(nc.m, 'NumpyArray<%s>::%s parents=%s %s %s' % (dtype, 'argsort_next' if arg else 'sort_next', list(parents), 'ascending' if ascending else 'descending', 'stable' if stable else 'unstable'),
                      obls, [], replay=replay, timeout_ms=120000,
                      extra=dict(bounds='%d items (any values; NaN included except for the unstable float sort, see known findings), parents %s concrete (case split)' % (n, list(parents))))


_SORT_DRIVER = r"""
#include <cstdio>
#include <cstdlib>
#include <cstring>
#include <string>
#include <vector>
#include "awkward/array/NumpyArray.h"
#include "awkward/Index.h"
#include "awkward/kernel-dispatch.h"
using namespace awkward;
int main(int argc, char** argv) {
  // argv: dtype itemsize fmt asc stable arg outlength n parents... raw...
  util::dtype dt = (util::dtype)atoi(argv[1]); ssize_t isz = atoi(argv[2]); std::string fmt = argv[3];
  bool asc = atoi(argv[4]) != 0, st = atoi(argv[5]) != 0, arg = atoi(argv[6]) != 0; int64_t outlength = atoll(argv[7]); int n = atoi(argv[8]);
  Index64 parents(n);
  std::vector<int64_t> starts_v;
  for (int i = 0; i < n; i++) { parents.data()[i] = atoll(argv[9 + i]); if (i == 0 || parents.data()[i] != parents.data()[i - 1]) starts_v.push_back(i); }
  Index64 starts((int64_t)starts_v.size()); for (size_t i = 0; i < starts_v.size(); i++) starts.data()[i] = starts_v[i];
  Index64 shifts(0);
  std::shared_ptr<void> ptr(malloc(n == 0 ? 8 : (size_t)(n * isz)), free);
  for (int i = 0; i < n; i++) { unsigned long long raw = strtoull(argv[9 + n + i], nullptr, 10); memcpy((char*)ptr.get() + i * isz, &raw, (size_t)isz); }
  std::vector<ssize_t> shape({(ssize_t)n}), strides({isz});
  NumpyArray a(Identities::none(), util::Parameters(), ptr, shape, strides, 0, isz, fmt, dt, kernel::lib::cpu);
  try {
    ContentPtr r = arg ? a.argsort_next(1, starts, shifts, parents, outlength, asc, st) : a.sort_next(1, starts, parents, outlength, asc, st);
    NumpyArray* o = dynamic_cast<NumpyArray*>(r.get());
    ssize_t osz = o->itemsize();
    for (int i = 0; i < n; i++) { unsigned long long raw = 0; memcpy(&raw, (char*)o->data() + i * osz, (size_t)osz); printf("%llu ", raw); }
    printf("| %d\n", (int)osz);
  } catch (std::exception& e) { printf("ERR %s\n", e.what()); }
  fflush(stdout); _Exit(0);
}
"""


def native_numpy_sort(dtype, raw, parents, outlength, ascending, stable, arg, groups):
    import subprocess, os, struct, math
    code, kind, isz, fmt, sgn = NP_DTYPES[dtype]
    exe = fullnative.link_driver(_SORT_DRIVER, 'npsort')
    env = dict(os.environ, ASAN_OPTIONS='detect_leaks=0:exitcode=86:allocator_may_return_null=1', UBSAN_OPTIONS='halt_on_error=1:exitcode=87')
    r = subprocess.run([exe, str(code), str(isz), fmt, str(int(ascending)), str(int(stable)), str(int(arg)), str(outlength), str(len(parents))] + [str(p) for p in parents] + [str(v) for v in raw],
                       capture_output=True, text=True, timeout=30, env=env, errors='replace')
    line = (r.stdout.strip().splitlines() or [''])[-1]
    payload = dict(dtype=dtype, data_bits=raw, parents=parents, ascending=ascending, stable=stable, argsort=arg, native=line)
    if r.returncode != 0 or line.startswith('ERR') or '|' not in line:
        return True, '%s of %s data %s (raw bits), parents %s: native library fails: %s %s' % ('argsort' if arg else 'sort', dtype, raw, parents, line, r.stderr[-200:]), payload
    got = [int(t) for t in line.split('|')[0].split()]
    bits = kind[1]

    def val(b):
        if sgn == 'f':
            return struct.unpack('<f' if bits == 32 else '<d', struct.pack('<I' if bits == 32 else '<Q', b))[0]
        return b - (1 << bits) if sgn == 's' and b >= 1 << (bits - 1) else b

    def keyf(v):          # NaN first, then the requested direction
        if isinstance(v, float) and math.isnan(v):
            return (0, 0)
        return (1, v if ascending else -v)
    bad = None
    for g in groups:
        ins_ = [val(raw[i]) for i in g]
        if arg:
            loc = [got[i] - (1 << 64) if got[i] >= 1 << 63 else got[i] for i in g]
            if sorted(loc) != list(range(len(g))):
                bad = 'positions %s of the group at %d are not a rearrangement of 0..%d' % (loc, g[0], len(g) - 1); break
            keys = [keyf(ins_[p]) for p in loc]
            if any(keys[i] > keys[i + 1] for i in range(len(keys) - 1)):
                bad = 'positions %s of the group at %d do not realise the order' % (loc, g[0]); break
            if stable and any(keys[i] == keys[i + 1] and loc[i] > loc[i + 1] for i in range(len(keys) - 1)):
                bad = 'equal keys of the group at %d lose their input order (%s)' % (g[0], loc); break
        else:
            outs_ = [val(got[i]) for i in g]
            canon = lambda l: sorted(('nan' if isinstance(v, float) and math.isnan(v) else repr(v)) for v in l)
            if canon(ins_) != canon(outs_):
                bad = 'group at %d: %s is not a rearrangement of %s' % (g[0], outs_, ins_); break
            keys = [keyf(v) for v in outs_]
            if any(keys[i] > keys[i + 1] for i in range(len(keys) - 1)):
                bad = 'group at %d: %s is not in the requested order' % (g[0], outs_); break
    if bad:
        return True, '%s of %s data %s, parents %s: native library gives %s: %s' % ('argsort' if arg else 'sort', dtype, [val(b) for b in raw], parents, line, bad), payload
    return False, 'native library agrees (%s)' % line, payload


def jobs_numpy_sort(tier):
    js = []
    dts = sorted(NP_DTYPES)          # every leaf type in both tiers: each has its own case of the dtype switch (a seeded change sat in the uint64 one)
    Ps = [(0, 0, 1)] if tier == 'quick' else [(0, 0, 1), (0, 0, 0), (1, 1, 2, 2), (0,), ()]
    full = ('int64', 'float64', 'uint64')
    for dt in dts:
        for P in Ps:
            if NP_DTYPES[dt][4] == 'f' and max([P.count(g) for g in set(P)] + [0]) > 2:
                continue          # three floating-point keys through the inlined sort do not finish in z3 (stated bound: float groups of <= 2)
            for arg in (False, True):
                for asc in ((True, False) if tier != 'quick' or dt in full else (True,)):
                    for st in ((True, False) if tier != 'quick' or dt in full[:2] else (True,)):
                        js.append((h_numpy_sort, (dt, P, asc, st, arg), 1800))
    return js


# ------------------------------------------------------------------------------------------------ C09: is_none (bytemask) of every option encoding
@guard
def h_bytemask(cls, pattern, variant):
    """bytemask() - what is_none reads - of the option-type classes: one byte per entry, non-zero exactly at the missing entries, whatever the
    encoding (negative index of any value, mask byte of any non-zero value in either polarity, bit mask in either bit order and polarity, no mask)"""
    pattern = tuple(bool(x) for x in pattern)
    n = len(pattern)
    short, src = OPTION_CLASSES[cls]
    nc = NodeCtx(['IA', 'BMA', 'BIT', 'UMA', 'IDX', 'CNT', 'UTL', 'KD', 'IDS'], [], unwind=max(10, 2 * n + 24))
    if cls in ('IndexedOptionArray64', 'IndexedOptionArray32'):
        this, idx = build_option64(nc, pattern) if cls.endswith('64') else build_indexed(nc, cls, pattern, nc.content0, nc.lencontent, 'node')
        head = lambda model: 'option%s %s ' % (cls[-2:], fullnative.ints([model.eval(x, model_completion=True).as_signed_long() for x in idx]))
    elif cls == 'ByteMaskedArray':
        this, mk = build_bytemasked(nc, pattern, variant)
        head = lambda model: 'bytemask %s %d ' % (fullnative.ints([model.eval(x, model_completion=True).as_signed_long() for x in mk]), 1 if variant else 0)
    elif cls == 'BitMaskedArray':
        vw, lsb = variant
        this, a0 = build_bitmasked(nc, pattern, vw, lsb)
        nbytes = (n + 7) // 8 or 1
        head = lambda model: 'bitmask %s %d %d %d ' % (fullnative.ints([model.eval(z3.Select(a0, BV(k)), model_completion=True).as_long() for k in range(nbytes)]), 1 if vw else 0, n, 1 if lsb else 0)
    else:
        if any(pattern):
            raise Unsupported('an UnmaskedArray has no missing entries')
        this, vals = build_unmasked(nc, n)
        head = lambda model: 'unmasked '
    nc.m.record('ret', {})
    out = nc.m.call('_ZNK7awkward%s8bytemaskEv' % short, [Ptr('ret', 0), this])
    obls = [('bytemask does not raise', out.raised)]
    terms, ln = nc.index_terms(out.mem, Ptr('ret', 0), 'byte mask')
    obls.append(('one byte per entry', z3.BoolVal(ln != n)))
    for i in range(min(n, ln)):
        t = terms[i]
        t8 = z3.Extract(7, 0, t) if t.size() > 8 else t
        obls.append(('entry %d: non-zero exactly when the entry is missing' % i, (t8 != 0) != z3.BoolVal(pattern[i])))
        obls.append(('entry %d is a canonical boolean (0 or 1: the Python layer views these bytes as numpy.bool_), whatever the encoding' % i, z3.And(t8 != 0, t8 != 1)))

    def replay(model, ent):
        lc = max(model.eval(nc.lencontent, model_completion=True).as_signed_long(), n)
        if cls.startswith('IndexedOptionArray'):
            lc = max([lc] + [model.eval(x, model_completion=True).as_signed_long() + 1 for x in idx])
        if lc > 100:
            return False, 'content too long to replay', {}
        prog = 'i64 %s ' % fullnative.ints(range(lc)) + head(model) + 'maskof'
        kind_, got = fullnative.akrun(prog)
        exp = [bool(p) for p in pattern]
        payload = dict(program=prog, native=[kind_, got], expected=exp)
        if kind_ != 'OK' or [bool(x) for x in got] != exp or any(x not in (0, 1, True, False) for x in got):
            return True, '%s bytemask(): native library %s %s, missing entries are %s' % (cls, kind_, str(got)[:150], exp), payload
        return False, 'native library agrees (%s)' % got, payload
    return mdischarge(nc.m, '%s::bytemask pattern=%s variant=%s' % (cls, ''.join('N' if p else 'v' for p in pattern), variant), obls, [], replay=replay, prefer=[nc.lencontent <= 12],
                      extra=dict(bounds='%d entries, missing pattern concrete (case split), index / mask byte values symbolic' % n))


def jobs_bytemask(tier):
    js = []
    pats = [(0, 1, 0), (1, 0, 0, 1, 1, 0, 0, 1, 1), (0, 0)] if tier == 'quick' else [p for k in (1, 2, 3) for p in itertools.product((0, 1), repeat=k)] + [(1, 0, 0, 1, 1, 0, 0, 1, 1), (0,) * 8 + (1,), (1,) * 9]
    for p in pats:
        js.append((h_bytemask, ('IndexedOptionArray64', p, None), 900))
        js.append((h_bytemask, ('IndexedOptionArray32', p, None), 900))
        for vw in (True, False):
            js.append((h_bytemask, ('ByteMaskedArray', p, vw), 900))
        for vw, lsb in itertools.product((True, False), repeat=2):
            js.append((h_bytemask, ('BitMaskedArray', p, (vw, lsb)), 900))
    js.append((h_bytemask, ('UnmaskedArray', (0, 0, 0), None), 900))
    return js


# ------------------------------------------------------------------------------------------------ C08: values that cannot be merged form a union
@guard
def h_merge_as_union(la, lb):
    """Content::merge_as_union(other): the entries of this array followed by the entries of the other one, each still the same element of its own
    (unchanged) content - the result is a union whose tags say which array an entry came from and whose index is the position in it"""
    nc = NodeCtx(['CNT', 'UNI', 'IDX', 'UTL', 'KD', 'IDS', 'EA'], [], unwind=la + lb + 12)
    BASE = 1 << 32
    nc.m.assume(nc.lencontent == la)
    kk = z3.BitVec('k!', 64)
    other = nc.new_content_in(nc.m.mem, 'content_other', BV(lb), z3.Lambda([kk], kk + BASE), const=True)
    otherp = nc.m.record('otherptr', {0: (other, 8), 8: (NULL, 8)}, const=True)
    nc.m.record('ret', {})
    out = nc.m.call('_ZNK7awkward7Content14merge_as_unionERKSt10shared_ptrIS0_E', [Ptr('ret', 0), nc.content0, otherp])
    obls = [('merge_as_union does not raise', out.raised)]
    res = decode(nc, out.mem, nc.m.cell('ret', 0))
    want = [Elem(BV(i)) for i in range(la)] + [Elem(BV(i) + BASE) for i in range(lb)]
    obls += nodeh.compare_value(res, want)
    if res['cls'] != 'union' or len(res.get('contents', [])) != 2:
        obls.append(('the result is a union of the two arrays', z3.BoolVal(True)))

    def replay(model, ent):
        prog = 'i64 %s i64 %s regular 1 %d mergeunion' % (fullnative.ints(range(la)), fullnative.ints(range(500, 500 + lb)), lb)
        return akrun_check(prog, list(range(la)) + [[500 + i] for i in range(lb)], 'numbers %s merged with lists of one number %s' % (la, lb))
    return mdischarge(nc.m, 'Content::merge_as_union %d + %d' % (la, lb), obls, [], replay=replay, extra=dict(bounds='lengths %d and %d (case split), opaque contents' % (la, lb)))


def jobs_merge_union(tier):
    return [(h_merge_as_union, a, 900) for a in ([(2, 1), (0, 2)] if tier == 'quick' else [(2, 1), (0, 2), (3, 0), (0, 0), (1, 3)])]


@guard
def h_record_setitem(names, where, length, wlen_delta):
    """RecordArray::setitem_field(name, what): the result has every old field *of another name*, unchanged and in order, followed by the new field
    under the given name - a name that was a field already is replaced, not doubled (reading it gives the new value; what ak.with_field does) -
    and the same number of records; an array of another length is refused"""
    names = tuple(names)
    kept = [j for j, nm_ in enumerate(names) if nm_ != where]
    nc = NodeCtx(['REC', 'IA', 'IDX', 'CNT', 'UTL', 'KD', 'IDS'], [], unwind=max(16, 4 * len(names) + 12))
    nc.m.eng.stubs.update(string_stubs(nc))
    this, vals, lens = build_named_record(nc, names, length)
    for l in lens:
        nc.m.assume(l == length)          # minlength(contents) is the record count again only when no field is longer (a longer field is trimmed by other operations)
    BASE = 1 << 32
    kk = z3.BitVec('k!', 64)
    wl = length + wlen_delta
    what = nc.new_content_in(nc.m.mem, 'content_what', BV(wl), z3.Lambda([kk], kk + 99 * BASE), const=True)
    whatp = nc.m.record('whatptr', {0: (what, 8), 8: (NULL, 8)}, const=True)
    cells = {}
    _string_cells(cells, 0, 'key', where)
    kp = nc.m.record('key', cells, const=True)
    nc.m.record('ret', {})
    cands = [f for mod_ in nc.m.eng.mods for f in mod_.func_src if f.startswith('_ZNK7awkward11RecordArray13setitem_fieldERKNSt7__cxx1112basic_string')]
    out = nc.m.call(cands[0], [Ptr('ret', 0), this, kp, whatp])
    obls = [('raises exactly when the new field has another length than the record array', z3.simplify(out.raised) != z3.BoolVal(wlen_delta != 0))]
    if wlen_delta == 0:
        res = decode(nc, out.mem, nc.m.cell('ret', 0))
        if res['cls'] != 'record' or len(res['contents']) != len(kept) + 1:
            obls.append(('the result is a record array with the other old fields and the new one (%d fields, not %s)' % (len(kept) + 1, len(res.get('contents', [])) if res['cls'] == 'record' else res['cls']), z3.BoolVal(True)))
        else:
            obls.append(('the number of records is unchanged', res['length'] != length))
            got_names = _lookup_names(out.mem, res['recordlookup'])
            obls.append(('the field names are the other old ones followed by the new one (%s)' % got_names, z3.BoolVal(got_names != [names[j] for j in kept] + [where])))
            for pos_, j in enumerate(kept + [99]):
                for i in range(length):
                    obls += compare(nodeh.at(res['contents'][pos_], i), Elem(BV(i + j * BASE)), 'record %d field %d' % (i, pos_))
    def replay(model, ent):
        if wlen_delta != 0 or not names:
            return False, 'only the accepted case of a record with named fields is replayed', {}
        # the receiver is asked for its keys again after the call: it must not have changed (the key list is shared between arrays)
        prog = ''.join('i64 %s ' % fullnative.ints(range(100 * j, 100 * j + length)) for j in range(len(names)))
        prog += 'record %d %d %s dup i64 %s setfield %s ' % (len(names), length, ' '.join(names), fullnative.ints(range(900, 900 + length)), where)
        kind, got = fullnative.akrun(prog + 'drop numkeys')
        payload = dict(program=prog + 'drop numkeys', native=[kind, got], expected=len(names))
        if kind != 'OK' or got != len(names):
            return True, 'records with fields %s: after setitem_field("%s") the original array lists %s keys instead of %d (native library %s)' % (list(names), where, got, len(names), kind), payload
        kind, got = fullnative.akrun(prog + 'numkeys')
        if kind != 'OK' or got != len(kept) + 1:
            return True, 'records with fields %s: after setitem_field("%s") the result lists %s keys instead of %d (native library %s)' % (list(names), where, got, len(kept) + 1, kind), dict(program=prog + 'numkeys', native=[kind, got], expected=len(kept) + 1)
        kind, got = fullnative.akrun(prog + 'getfield %s' % where)
        if kind != 'OK' or got != list(range(900, 900 + length)):
            return True, 'records with fields %s: after setitem_field("%s") reading that field gives %s %s instead of the new values' % (list(names), where, kind, str(got)[:100]), dict(program=prog + 'getfield %s' % where, native=[kind, got])
        exp = [dict([(nm, 100 * j + i) for j, nm in enumerate(names) if nm != where] + [(where, 900 + i)]) for i in range(length)]
        return akrun_check(prog, exp, 'setitem_field("%s") on records with fields %s' % (where, list(names)))
    return mdischarge(nc.m, 'RecordArray%s::setitem_field("%s") new field of length %+d' % (list(names), where, wlen_delta), obls, [], replay=replay,
                      extra=dict(bounds='field names concrete (case split), %d records' % length))


def jobs_record_setitem(tier):
    q = [(('a', 'b'), 'c', 2, 0), (('a',), 'z', 1, 1), ((), 'x', 2, 0), (('x', 'y'), 'x', 2, 0), (('a', 'b', 'c'), 'b', 1, 0)]
    if tier != 'quick':
        q += [(('a', 'b', 'c'), 'd', 0, 0), (('x', 'y'), 'w', 3, -1), (('k',), 'k', 2, 0), (('x', 'y'), 'y', 2, 1)]
    return [(h_record_setitem, a, 900) for a in q]


# ------------------------------------------------------------------------------------------------ C07 / C05: the axis-0 helpers of Content
@guard
def h_axis0(L, what, n=2, replacement=False, cls=None, dims=None):
    """Content::combinations_axis0 / localindex_axis0 on an array of L entries: the combinations are the itertools tuples of the entries
    themselves, in order, as records whose fields are selections from this very array; the local index is 0..L-1.  cls / dims: the array is a
    real node of that class (option-type, indexed, list) over the opaque content instead of the opaque content itself - the answer is a final
    result, so it also obeys the rule that no indexed / option-type node sits directly on another one"""
    import itertools as it
    comb = it.combinations_with_replacement if replacement else it.combinations
    ntup = len(list(comb(range(L), n)))
    nc = NodeCtx(['CNT', 'REC', 'IA', 'NA', 'IDX', 'UTL', 'KD', 'IDS', 'EA'] + (['LOA', 'LA', 'RA', 'UMA', 'BMA'] if cls else []), [], unwind=max(12, 2 * ntup + 2 * L + 4 * n + 12))
    if cls is None:
        nc.m.assume(nc.lencontent == L)
        receiver, entries, rp = nc.content0, [Elem(BV(i)) for i in range(L)], None
    else:
        receiver, entries, short_, rp = any_node(nc, cls, dims)
    nc.m.record('ret', {})
    if what == 'combinations':
        rl = nc.m.record('recordlookup', {0: (NULL, 8), 8: (NULL, 8)}, const=True)
        pc_ = {}
        nc.empty_map(pc_, 0, 'noparams')
        pm = nc.m.record('noparams', pc_, const=True)
        cands = [f for mod_ in nc.m.eng.mods for f in mod_.func_src if f.startswith('_ZNK7awkward7Content18combinations_axis0Elb')]
        out = nc.m.call(cands[0], [Ptr('ret', 0), receiver, BV(n), z3.BitVecVal(1 if replacement else 0, 1), rl, pm])
        want = [[entries[x] for x in t] for t in comb(range(L), n)]
    else:
        out = nc.m.call('_ZNK7awkward7Content16localindex_axis0Ev', [Ptr('ret', 0), receiver])
        want = [Elem(BV(i)) for i in range(L)]
    obls = [('does not raise', out.raised)]
    res = decode(nc, out.mem, nc.m.cell('ret', 0))
    obls += nodeh.compare_value(res, want, strict=True)

    def replay(model, ent):
        if rp is not None:
            lc = model.eval(nc.lencontent, model_completion=True).as_signed_long()
            if lc > 200:
                return False, 'content too long to replay', {}
            head, pyval = rp(model, lc)
            if what == 'combinations':
                exp = [{str(k): pyval[v] for k, v in enumerate(t)} for t in comb(range(L), n)]
                got = fullnative.akrun(head + 'combinations %d %d 0 validity' % (n, 1 if replacement else 0))
                if got != ('OK', ''):
                    return True, 'combinations(axis=0) of %s %s: the answer is not a valid array: %s' % (cls, pyval, str(got)[:300]), dict(program=head)
                return akrun_check(head + 'combinations %d %d 0' % (n, 1 if replacement else 0), exp, 'combinations(axis=0) of %s %s' % (cls, pyval))
            return akrun_check(head + 'localindex 0', list(range(L)), 'localindex(axis=0) of %s %s' % (cls, pyval))
        if what == 'combinations':
            prog = 'i64 %s combinations %d %d 0' % (fullnative.ints(range(100, 100 + L)), n, 1 if replacement else 0)
            exp = [{str(k): 100 + v for k, v in enumerate(t)} for t in comb(range(L), n)]
        else:
            prog = 'i64 %s regular 1 %d localindex 0' % (fullnative.ints(range(100, 100 + L)), L)
            exp = list(range(L))
        return akrun_check(prog, exp, '%s along axis 0 of %d entries' % (what, L))
    return mdischarge(nc.m, 'Content::%s_axis0 L=%d%s%s' % (what, L, (' n=%d replacement=%s' % (n, replacement)) if what == 'combinations' else '', ' on %s %s' % (cls, dims) if cls else ''), obls, [], replay=replay,
                      prefer=[nc.lencontent <= 12], extra=dict(bounds='%d entries (case split)' % L))


def jobs_axis0(tier, what):
    if what == 'localindex':
        return [(h_axis0, (L, 'localindex'), 900) for L in ((0, 3) if tier == 'quick' else (0, 1, 2, 3, 5))]
    Ls = (0, 3) if tier == 'quick' else (0, 1, 2, 3, 4)
    js = [(h_axis0, (L, 'combinations', n, rep), 900) for L in Ls for n in ((2,) if tier == 'quick' else (1, 2, 3)) for rep in (False, True)]
    nodes = [('IndexedOptionArray64', (0, 1, 0)), ('UnmaskedArray', (2,))] if tier == 'quick' else [('IndexedOptionArray64', (0, 1, 0)), ('IndexedOptionArray64', (1, 1)), ('UnmaskedArray', (2,)), ('UnmaskedArray', (0,)), ('ListOffsetArray64', (2, 0, 1)), ('RegularArray', (2, 2))]
    for cls, dims in nodes:
        L = dims[1] if cls == 'RegularArray' else (dims[0] if cls == 'UnmaskedArray' else len(dims))
        js.append((h_axis0, (L, 'combinations', 2, False, cls, dims), 1800))
        if tier != 'quick':
            js.append((h_axis0, (L, 'combinations', 2, True, cls, dims), 1800))
    return js


# ------------------------------------------------------------------------------------------------ C01 / C08: positional operations on a union
@guard
def h_union_ops(tags, op, arg, width='64'):
    """UnionArray8_<width>: entry i is element index[i] of content tags[i].  carry(c) lists entries c[0], c[1], ...; a range lists entries a..b-1;
    project(k) lists, in order, the elements of content k that the union shows"""
    tags = tuple(tags)
    n = len(tags)
    nc = NodeCtx(['UNI', 'IA', 'IDX', 'CNT', 'UTL', 'KD', 'IDS', 'EA'], [], unwind=max(14, 3 * n + (arg if isinstance(arg, int) else 4) * 2 + 12))
    BASE = 1 << 32
    kk = z3.BitVec('k!', 64)
    lb = nc.m.bv('lencontentB')
    nc.m.assume(nc.lencontent >= 1, nc.lencontent <= 2 ** 20, lb >= 1, lb <= 2 ** 20)
    pb = nc.new_content_in(nc.m.mem, 'content_B', lb, z3.Lambda([kk], kk + BASE), const=True)
    this, idx = build_union8_64(nc, tags, [nc.content0, pb], 'node', [nc.lencontent, lb], width=width)
    elems = [Elem(idx[i] + t * BASE) for i, t in enumerate(tags)]
    T = WIDTHS[width][0]
    nc.m.record('ret', {})
    if op == 'carry':
        m_ = arg
        data = nc.m.array('carrydata', ('i', 64), max(1, m_), const=True)
        a0 = z3.Array('carrydata', z3.BitVecSort(64), z3.BitVecSort(64))
        cv = [z3.Select(a0, BV(i)) for i in range(m_)]
        for v in cv:
            nc.m.assume(v >= 0, v < n)
        cells = {}
        nc.index_cells(cells, 0, data, BV(0), BV(m_))
        cidx = nc.m.record('carryindex', cells, const=True)
        out = nc.m.call('_ZNK7awkward12UnionArrayOfIa%sE5carryERKNS_7IndexOfIlEEb' % T, [Ptr('ret', 0), this, cidx, z3.BitVecVal(0, 1)])
        want = [_select(elems, v) for v in cv]
        desc = 'carry by %d indexes' % m_
    elif op == 'range':
        a, b = arg
        out = nc.m.call('_ZNK7awkward12UnionArrayOfIa%sE20getitem_range_nowrapEll' % T, [Ptr('ret', 0), this, BV(a), BV(b)])
        want = elems[a:b]
        desc = 'range [%d:%d]' % (a, b)
    else:
        k = arg
        out = nc.m.call('_ZNK7awkward12UnionArrayOfIa%sE7projectEl' % T, [Ptr('ret', 0), this, BV(k)])
        want = [elems[i] for i, t in enumerate(tags) if t == k]
        desc = 'project(%d)' % k
    obls = [('%s does not raise' % desc, out.raised)]
    rcell = nc.m.cell('ret', 0)
    for g, res in (nodeh.decode_cases(nc, out.mem, rcell) if rcell is not None else []):
        if res is None:
            obls.append(('a result is returned', z3.And(g, z3.Not(out.raised))))
            continue
        obls += [(nm, z3.And(g, z3.Not(out.raised), c)) for nm, c in nodeh.compare_value(res, want)]

    def replay(model, ent):
        ev = lambda t: model.eval(t, model_completion=True).as_signed_long()
        iv = [ev(x) for x in idx]
        la = max([1] + [v + 1 for v, t in zip(iv, tags) if t == 0])
        lbv = max([1] + [v + 1 for v, t in zip(iv, tags) if t == 1])
        if max(la, lbv) > 100:
            return False, 'contents too long to replay', {}
        prog = 'i64 %s i64 %s regular 1 %d union8_%s %d %s %s 2 ' % (fullnative.ints(range(la)), fullnative.ints(range(500, 500 + lbv)), lbv, width, n, ' '.join(map(str, tags)), ' '.join(map(str, iv)))
        val = [iv[i] if t == 0 else [500 + iv[i]] for i, t in enumerate(tags)]
        if op == 'carry':
            cvv = [ev(v) for v in cv]
            prog += 'carry %d %s' % (len(cvv), ' '.join(map(str, cvv)))
            exp = [val[c] for c in cvv]
        elif op == 'range':
            prog += 'slice %d %d' % arg
            exp = val[arg[0]:arg[1]]
        else:
            prog += 'unionproject %d' % arg
            exp = [val[i] for i, t in enumerate(tags) if t == arg]
        return akrun_check(prog, exp, 'UnionArray8_%s tags=%s index=%s %s' % (width, list(tags), iv, desc))
    return mdischarge(nc.m, 'UnionArray8_%s tags=%s %s' % (width, ''.join(map(str, tags)), desc), obls, [], replay=replay, prefer=[nc.lencontent <= 6, lb <= 6],
                      extra=dict(bounds='tags concrete (case split), union index, carry indexes and content lengths symbolic'))


def jobs_union_ops(tier):
    js = []
    tagsets = [(0, 1, 1, 0), (1, 1)] if tier == 'quick' else [(0, 1, 1, 0), (1, 1), (0,), (1, 0, 1), (0, 0, 1, 1, 0)]
    for w in ('64', '32', 'U32'):
        for tg in (tagsets if w == '64' or tier != 'quick' else tagsets[:1]):
            js.append((h_union_ops, (tg, 'carry', 2, w), 1800))
            js.append((h_union_ops, (tg, 'range', (1, len(tg)), w), 1800))
            js.append((h_union_ops, (tg, 'project', 0, w), 1800))
            js.append((h_union_ops, (tg, 'project', 1, w), 1800))
    return js


# ------------------------------------------------------------------------------------------------ C03: ListOffsetArray64::reduce_next, non-local branch
@guard
def h_reduce_nonlocal(lens, parents, positions, cls='ListOffsetArray64'):
    """ListOffsetArray64::reduce_next for a reduction *at* this list level's parent axis (the 'non-local' branch, e.g. axis=0 of a list of lists): the
    elements that agree on everything but the reduced coordinate are those at the same position j of the lists of one outer group g.  Decided:
    the content is handed every covered element exactly once; two handed elements carry the same group number exactly when they share (g, j);
    starts[group] is where that group begins in what is handed over; the answer has, for every outer group, one result per position up to its
    longest list, in position order; for position reducers the shift handed on with an element is the number of earlier lists of its group that
    are too short to reach position j (so that position - start + shift is the list's index in its group)"""
    lens, parents = list(lens), list(parents)
    n, total = len(lens), sum(lens)
    outlength = (max(parents) + 1) if parents else 0
    nc = NodeCtx(['LOA', 'LA', 'RA', 'IDX', 'CNT', 'UTL', 'KD', 'IDS', 'NA'], [], unwind=max(14, 2 * total + 2 * n + outlength * (max(lens + [0]) + 1) + 10))
    RED = z3.Function('RED', z3.BitVecSort(64), z3.BitVecSort(64))
    seen = []

    def s_reduce_next(eng, fr, ins, st, name, argv):
        sret, selfp, reducer, negaxis, starts, shifts, parents_, outl, mask, keepdims = argv
        nm, info = nc.content_info(selfp, st, eng)
        seen.append(dict(pc=st.pc, info=info, negaxis=negaxis, starts=nc.index_terms(st.mem, starts, 'starts')[0], parents=nc.index_terms(st.mem, parents_, 'parents')[0],
                         shifts=nc.index_terms(st.mem, shifts, 'shifts')[0], outlength=outl, mask=mask, keepdims=keepdims))
        k = z3.BitVec('k!', 64)
        nc._ret(st, sret, nc.fresh_content(eng, st, outl, z3.Lambda([k], RED(k)), derived='reduced'))
        return None
    nc.m.eng.stubs['vf$slot%d' % nc.slot('11reduce_nextERKNS_7ReducerEl')] = s_reduce_next
    nc.m.eng.stubs['vf$slot%d' % nc.slot('12branch_depthEv')] = lambda eng, fr, ins, st, name, argv: [z3.BitVecVal(0, 8), BV(1)]
    nc.m.eng.stubs['vf$slot%d' % nc.slot('20dimension_optiontypeEv')] = lambda eng, fr, ins, st, name, argv: z3.BitVecVal(0, 1)
    this, lists, starts_, offs, short = list_node(nc, cls, tuple(lens) if cls != 'RegularArray' else (lens[0] if lens else 0, len(lens)))
    el = lambda i, j: lists[i][j].val
    if cls.startswith('ListArray'):
        # elements are identified by their position in the content: lists that overlap would make two elements indistinguishable here
        for i1 in range(len(lens)):
            for i2 in range(i1 + 1, len(lens)):
                if lens[i1] and lens[i2]:
                    nc.m.assume(z3.Or(starts_[i1] + lens[i1] <= starts_[i2], starts_[i2] + lens[i2] <= starts_[i1]))

    def index64(name, vals):
        arr = z3.K(z3.BitVecSort(64), BV(0))
        for i, v in enumerate(vals):
            arr = z3.Store(arr, BV(i), BV(v))
        d = nc.m.array(name + '_data', ('i', 64), max(1, len(vals)), const=True, arr=arr)
        cells = {}
        nc.index_cells(cells, 0, d, BV(0), BV(len(vals)))
        return nc.m.record(name, cells, const=True)
    first_of = {g: min(i for i, p in enumerate(parents) if p == g) for g in set(parents)}
    pidx = index64('parents', parents)
    starts = index64('starts', [first_of.get(g, 0) for g in range(outlength)])
    shifts = index64('shifts', [])
    # the reducer: only returns_positions() is asked of it here
    from .cpp01 import vtable_slots
    rslots, rn = vtable_slots(module_of('src/libawkward/Reducer.cpp'), 'N7awkward10ReducerSumE')
    rp_slot = [k for s_, k in rslots.items() if 'returns_positions' in s_][0]
    nc.m.record('redvt', {8 * j: (Ptr(('func', 'vf$red%d' % j), 0), 8) for j in range(rn)}, const=True)
    nc.m.eng.stubs['vf$red%d' % rp_slot] = lambda eng, fr, ins, st, name, argv: z3.BitVecVal(1 if positions else 0, 1)
    reducer = nc.m.record('reducer', {0: (Ptr('redvt', 0), 8)}, const=True)
    nc.m.record('ret', {})
    cands_ = [f_ for mod_ in nc.m.eng.mods for f_ in mod_.func_src if f_.startswith('_ZNK7awkward%s11reduce_nextERKNS_7ReducerEl' % short)]
    fn = cands_[0]
    # the list level is one above the leaf: branch_depth() of this node is (false, 2), so negaxis = 2 selects the non-local branch
    out = nc.m.call(fn, [Ptr('ret', 0), this, reducer, BV(2), starts, shifts, pidx, BV(outlength), z3.BitVecVal(0, 1), z3.BitVecVal(0, 1)])
    obls = [('reduce_next does not raise', out.raised),
            ('the content is asked (on every path)', z3.Not(z3.Or([ob['pc'] for ob in seen] + [z3.BoolVal(False)])))]
    maxlen = {g: max([lens[i] for i, p in enumerate(parents) if p == g] + [0]) for g in range(outlength)}
    for ob in seen:
        info, g_ = ob['info'], ob['pc']
        G = lambda c: z3.And(g_, c)
        hl = nodeh.concrete(info['length'], 'length of the content handed over', under=g_)
        obls.append(('the content handed over holds every covered element once', G(z3.BoolVal(hl != total))))
        atoms = [z3.simplify(z3.Select(info['atoms'], BV(k))) for k in range(hl)]
        pars = ob['parents']
        if len(pars) != hl:
            obls.append(('one group number per handed element', g_)); continue
        # where element (i, j) went: by atom value el(i, j) (atoms are distinct positions of the original content)
        key_of = []          # per handed k: ite-selected (outer group, position j, list index i) as z3 terms
        for k in range(hl):
            gi, ji, ii, found = BV(-1), BV(-1), BV(-1), z3.BoolVal(False)
            for i in range(n):
                for j in range(lens[i]):
                    hit = atoms[k] == el(i, j)
                    gi, ji, ii = z3.If(hit, BV(parents[i]), gi), z3.If(hit, BV(j), ji), z3.If(hit, BV(i), ii)
                    found = z3.Or(found, hit)
            key_of.append((z3.simplify(gi), z3.simplify(ji), z3.simplify(ii)))
            obls.append(('handed element %d is a covered element' % k, G(z3.Not(found))))
        for a in range(hl):
            for b in range(a + 1, hl):
                obls.append(('handed elements %d and %d are different elements' % (a, b), G(atoms[a] == atoms[b])))
                same_key = z3.And(key_of[a][0] == key_of[b][0], key_of[a][1] == key_of[b][1])
                obls.append(('elements %d and %d share a group number exactly when they share (outer group, position)' % (a, b), G((pars[a] == pars[b]) != same_key)))
        for k in range(hl):
            obls.append(('group numbers fit the number of groups announced', G(z3.Or(pars[k] < 0, pars[k] >= ob['outlength']))))
            if len(ob['starts']) and True:
                # starts[group of k] is the first handed position of that group
                st_k = ob['starts'][0]
                for q in range(len(ob['starts'])):
                    st_k = z3.If(pars[k] == q, ob['starts'][q], st_k)
                firstpos = BV(k)
                for b in range(k - 1, -1, -1):
                    firstpos = z3.If(pars[b] == pars[k], BV(b), firstpos)
                obls.append(('starts of the group of element %d is where that group begins in what is handed over' % k, G(st_k != firstpos)))
        obls.append(('the reduction below is asked one level further down', G(ob['negaxis'] != 1)))
        obls.append(('keepdims is not handed on', G(ob['keepdims'] != 0)))
        if positions:
            if len(ob['shifts']) != hl:
                obls.append(('one shift per handed element for position reducers', g_))
            else:
                for k in range(hl):
                    # number of lists of the same outer group, before list i, that do not reach position j
                    want = BV(0)
                    for i in range(n):
                        for j in range(lens[i]):
                            cnt = sum(1 for i2 in range(i) if parents[i2] == parents[i] and lens[i2] <= j)
                            want = z3.If(atoms[k] == el(i, j), BV(cnt), want)
                    obls.append(('shift of handed element %d = earlier lists of its group too short for its position' % k, G(ob['shifts'][k] != want)))
        else:
            obls.append(('no shifts for reducers that do not return positions', G(z3.BoolVal(len(ob['shifts']) != 0))))
    # the answer: per outer group the results of its position groups, in position order
    try:
        cases = list(nodeh.decode_cases(nc, out.mem, nc.m.cell('ret', 0)))
    except Unsupported as err:
        # nothing readable where the answer should be: fine when every path raised (the obligation above reports that), inconclusive otherwise
        cases = []
        obls.append(('an answer that can be read back on every path that returns (%s)' % str(err)[:80], z3.Not(out.raised)))
    for g_, res in cases:
        if res is None:
            obls.append(('a result is returned', z3.And(g_, z3.Not(out.raised)))); continue
        val = value(res)
        if len(val) != outlength:
            obls.append(('one result list per outer group', g_)); continue
        for ob in seen:
            pars, info = ob['parents'], ob['info']
            hl = len(pars)
            atoms = [z3.simplify(z3.Select(info['atoms'], BV(k))) for k in range(hl)]
            for g in range(outlength):
                if len(val[g]) != maxlen[g]:
                    obls.append(('outer group %d has one result per position of its longest list (%d, not %d)' % (g, maxlen[g], len(val[g])), z3.And(g_, ob['pc'])))
                    continue
                for j in range(maxlen[g]):
                    # the group number of (g, j): read off any handed element with that key
                    wit = [i for i in range(n) if parents[i] == g and lens[i] > j][0]
                    idt = BV(-1)
                    for k in range(hl):
                        idt = z3.If(atoms[k] == el(wit, j), pars[k], idt)
                    obls.append(('result %d of outer group %d is the reduction of its position-%d elements' % (j, g, j), z3.And(g_, ob['pc'], val[g][j].val != RED(idt))))

    def replay(model, ent):
        lc = model.eval(nc.lencontent, model_completion=True).as_signed_long()
        if lc > 200:
            return False, 'content too long to replay', {}
        head0, inp0 = node_program(nc, model, lc)
        # outer list structure from the parents: group g holds the lists with parents == g (consecutive)
        counts = [sum(1 for p in parents if p == g) for g in range(outlength)]
        oo, acc = [0], 0
        for c in counts:
            acc += c; oo.append(acc)
        ntoks = head0.split()
        cnt = int(ntoks[1])
        vals = [7 * v % 11 for v in range(cnt)]
        inner = [[vals[x] for x in lst] for lst in inp0]
        nested = [inner[oo[g]:oo[g + 1]] for g in range(outlength)]
        head = 'i64 %s ' % fullnative.ints(vals) + ' '.join(ntoks[2 + cnt:]) + ' listoffset64 %s ' % fullnative.ints(oo)
        import itertools as _it
        if positions:
            def ref(group):
                out_ = []
                for col in _it.zip_longest(*group):
                    present = [(x, i) for i, x in enumerate(col) if x is not None]
                    best = max(x for x, i in present)
                    out_.append([i for x, i in present if x == best][0])
                return out_
            return akrun_check(head + 'reduce argmax 1 0 0', [ref(gp) for gp in nested], 'argmax(axis=1) of %s' % nested)
        ref = lambda group: [sum(x for x in col if x is not None) for col in _it.zip_longest(*group)]
        return akrun_check(head + 'reduce sum 1 0 0', [ref(gp) for gp in nested], 'sum(axis=1) of %s' % nested)
    return mdischarge(nc.m, cls + '::reduce_next non-local lens=%s parents=%s%s' % (','.join(map(str, lens)), ','.join(map(str, parents)), ' positions' if positions else ''), obls,
                      [('non-zero offset origin', offs[0] > 0)] if cls.startswith('ListOffset') else [], replay=replay, prefer=[o <= 4 for o in offs[:1]] + [nc.lencontent <= 24],
                      extra=dict(bounds='list lengths %s and outer groups %s concrete (case split); offsets origin symbolic; opaque leaf content' % (lens, parents)))


def jobs_reduce_nonlocal(tier):
    q = [((2, 1), (0, 0)), ((1, 2, 1), (0, 0, 1)), ((0, 2), (0, 0)), ((2, 0, 3), (0, 1, 1)), ((0, 1, 1), (0, 0, 1)), ((0, 2, 1, 2), (0, 0, 1, 1))]
    if tier != 'quick':
        q += [((1, 1, 1), (0, 0, 0)), ((3, 1, 2), (0, 0, 0)), ((2, 2), (0, 2)), ((1,), (0,)), ((0, 0), (0, 0))]
    js = [(h_reduce_nonlocal, (l, p, pos), 1800) for l, p in q for pos in (False, True)]
    for k, cls in enumerate(('ListOffsetArrayU32', 'ListArray64', 'ListArray32', 'RegularArray')):
        for l, p in (([((2, 2), (0, 0)), ((2, 2), (0, 2))] if tier == 'quick' else [((2, 2), (0, 0)), ((2, 2), (0, 2)), ((2,), (1,)), ((1, 1, 1), (0, 0, 2)), ((3, 3), (0, 1))]) if cls == 'RegularArray' else (q[4:5] if tier == 'quick' else q[:5])):
            js.append((h_reduce_nonlocal, (l, p, bool(k % 2), cls), 1800))
    return js


def _handed_on_obligations(ob, lens, parents, el, with_shifts):
    """what a list node hands to its content when the operation goes across the lists of an outer group (shared by reduce / sort / argsort):
    -> (obligations, atoms of the handed content, group numbers) ; see h_reduce_nonlocal"""
    n, total = len(lens), sum(lens)
    info, g_ = ob['info'], ob['pc']
    G = lambda c: z3.And(g_, c)
    obls = []
    hl = nodeh.concrete(info['length'], 'length of the content handed over', under=g_)
    obls.append(('the content handed over holds every covered element once', G(z3.BoolVal(hl != total))))
    atoms = [z3.simplify(z3.Select(info['atoms'], BV(k))) for k in range(hl)]
    pars = ob['parents']
    if len(pars) != hl:
        return obls + [('one group number per handed element', g_)], atoms, None
    key_of = []
    for k in range(hl):
        gi, ji, found = BV(-1), BV(-1), z3.BoolVal(False)
        for i in range(n):
            for j in range(lens[i]):
                hit = atoms[k] == el(i, j)
                gi, ji = z3.If(hit, BV(parents[i]), gi), z3.If(hit, BV(j), ji)
                found = z3.Or(found, hit)
        key_of.append((z3.simplify(gi), z3.simplify(ji)))
        obls.append(('handed element %d is a covered element' % k, G(z3.Not(found))))
    for a in range(hl):
        for b in range(a + 1, hl):
            obls.append(('handed elements %d and %d are different elements' % (a, b), G(atoms[a] == atoms[b])))
            same_key = z3.And(key_of[a][0] == key_of[b][0], key_of[a][1] == key_of[b][1])
            obls.append(('elements %d and %d share a group number exactly when they share (outer group, position)' % (a, b), G((pars[a] == pars[b]) != same_key)))
            # members of one group keep the order of their lists (what "first" and "stable" mean below)
            lst = lambda k_: z3.simplify(_list_of(atoms[k_], lens, el))
            obls.append(('within a group the handed order is the order of the lists (%d, %d)' % (a, b), G(z3.And(pars[a] == pars[b], lst(a) > lst(b)))))
    for k in range(hl):
        st_k = ob['starts'][0] if ob['starts'] else BV(-1)
        for q in range(len(ob['starts'])):
            st_k = z3.If(pars[k] == q, ob['starts'][q], st_k)
        firstpos = BV(k)
        for b in range(k - 1, -1, -1):
            firstpos = z3.If(pars[b] == pars[k], BV(b), firstpos)
        obls.append(('starts of the group of element %d is where that group begins in what is handed over' % k, G(st_k != firstpos)))
    if with_shifts:
        if len(ob['shifts']) != hl:
            obls.append(('one shift per handed element', g_))
        else:
            for k in range(hl):
                want = BV(0)
                for i in range(n):
                    for j in range(lens[i]):
                        cnt = sum(1 for i2 in range(i) if parents[i2] == parents[i] and lens[i2] <= j)
                        want = z3.If(atoms[k] == el(i, j), BV(cnt), want)
                obls.append(('shift of handed element %d = earlier lists of its group too short for its position' % k, G(ob['shifts'][k] != want)))
    return obls, atoms, pars


def _list_of(atom, lens, el):
    v = BV(-1)
    for i in range(len(lens)):
        for j in range(lens[i]):
            v = z3.If(atom == el(i, j), BV(i), v)
    return v


@guard
def h_sort_nonlocal(lens, parents, arg, cls='ListOffsetArray64'):
    """ListOffsetArray64::sort_next / argsort_next across the lists of an outer group (e.g. ak.sort(axis=0) of a list of lists): the content is
    handed the elements grouped by (outer group, position) - as for reductions - and whatever the content answers for the element handed at
    position k ends up at the place of the very element that was handed at position k: same list, same position; list lengths are unchanged"""
    lens, parents = list(lens), list(parents)
    n, total = len(lens), sum(lens)
    outlength = (max(parents) + 1) if parents else 0
    nc = NodeCtx(['LOA', 'LA', 'RA', 'IDX', 'CNT', 'UTL', 'KD', 'IDS', 'NA'], [], unwind=max(14, 3 * total + 2 * n + outlength * (max(lens + [0]) + 1) + 10))
    S = z3.Function('SORTED', z3.BitVecSort(64), z3.BitVecSort(64))
    seen = []

    def s_sort_next(eng, fr, ins, st, name, argv):
        if arg:
            sret, selfp, negaxis, starts, shifts, parents_, outl, asc, stb = argv
        else:
            sret, selfp, negaxis, starts, parents_, outl, asc, stb = argv
            shifts = None
        nm, info = nc.content_info(selfp, st, eng)
        seen.append(dict(pc=st.pc, info=info, negaxis=negaxis, starts=nc.index_terms(st.mem, starts, 'starts')[0], parents=nc.index_terms(st.mem, parents_, 'parents')[0],
                         shifts=nc.index_terms(st.mem, shifts, 'shifts')[0] if shifts is not None else [], outlength=outl, asc=asc, stb=stb))
        k = z3.BitVec('k!', 64)
        nc._ret(st, sret, nc.fresh_content(eng, st, info['length'], z3.Lambda([k], S(k)), derived='sorted'))
        return None
    frag = '12argsort_nextElRKNS_7IndexOfIlEES4_S4_lbb' if arg else '9sort_nextElRKNS_7IndexOfIlEES4_lbb'
    nc.m.eng.stubs['vf$slot%d' % nc.slot(frag)] = s_sort_next
    # harness nodes carry no parameters: purelist_parameter("__array__") is the empty string (not "string" / "bytestring")
    nc.m.eng.stubs['_ZNK7awkward7Content18purelist_parameterE*'] = nodeh.s_empty_string
    nc.m.eng.stubs['_ZNK7awkward17ListOffsetArrayOfIlE18purelist_parameterE*'] = nodeh.s_empty_string
    nc.m.eng.stubs.update(string_stubs(nc))
    from .mbuild import cstring_stubs
    nc.m.eng.stubs.update({k_: v_ for k_, v_ in cstring_stubs().items() if 'compare' in k_})
    nc.m.eng.stubs['vf$slot%d' % nc.slot('12branch_depthEv')] = lambda eng, fr, ins, st, name, argv: [z3.BitVecVal(0, 8), BV(1)]
    this, lists, starts_, offs, short = list_node(nc, cls, tuple(lens) if cls != 'RegularArray' else (lens[0] if lens else 0, len(lens)))
    el = lambda i, j: lists[i][j].val
    if cls.startswith('ListArray'):
        # elements are identified by their position in the content: lists that overlap would make two elements indistinguishable here
        for i1 in range(len(lens)):
            for i2 in range(i1 + 1, len(lens)):
                if lens[i1] and lens[i2]:
                    nc.m.assume(z3.Or(starts_[i1] + lens[i1] <= starts_[i2], starts_[i2] + lens[i2] <= starts_[i1]))

    def index64(name, vals):
        arr = z3.K(z3.BitVecSort(64), BV(0))
        for i, v in enumerate(vals):
            arr = z3.Store(arr, BV(i), BV(v))
        d = nc.m.array(name + '_data', ('i', 64), max(1, len(vals)), const=True, arr=arr)
        cells = {}
        nc.index_cells(cells, 0, d, BV(0), BV(len(vals)))
        return nc.m.record(name, cells, const=True)
    first_of = {g: min(i for i, p in enumerate(parents) if p == g) for g in set(parents)}
    pidx = index64('parents', parents)
    starts = index64('starts', [first_of.get(g, 0) for g in range(outlength)])
    shifts = index64('shifts', [])
    nc.m.record('ret', {})
    asc, stb = nc.m.bv('ascending', 1), nc.m.bv('stable', 1)
    if arg:
        cands = [f for mod_ in nc.m.eng.mods for f in mod_.func_src if f.startswith('_ZNK7awkward%s12argsort_nextE' % short)]
        out = nc.m.call(cands[0], [Ptr('ret', 0), this, BV(2), starts, shifts, pidx, BV(outlength), asc, stb])
    else:
        cands = [f for mod_ in nc.m.eng.mods for f in mod_.func_src if f.startswith('_ZNK7awkward%s9sort_nextE' % short)]
        out = nc.m.call(cands[0], [Ptr('ret', 0), this, BV(2), starts, pidx, BV(outlength), asc, stb])
    if n == 0:
        return mdischarge(nc.m, 'ListOffsetArray64::%s non-local (no lists)' % ('argsort_next' if arg else 'sort_next'), [('does not raise', out.raised)], [], replay=None)
    obls = [('does not raise', out.raised), ('the content is asked (on every path)', z3.Not(z3.Or([ob['pc'] for ob in seen] + [z3.BoolVal(False)])))]
    for ob in seen:
        o2, atoms, pars = _handed_on_obligations(ob, lens, parents, el, with_shifts=arg)
        obls += o2
        G = lambda c: z3.And(ob['pc'], c)
        obls.append(('the sort below is asked one level further down', G(ob['negaxis'] != 1)))
        obls.append(('direction and stability are handed on unchanged', G(z3.Or(ob['asc'] != asc, ob['stb'] != stb))))
        if pars is None:
            continue
        for g_, res in nodeh.decode_cases(nc, out.mem, nc.m.cell('ret', 0)):
            if res is None:
                obls.append(('a result is returned', z3.And(g_, z3.Not(out.raised)))); continue
            val = value(res)
            if [len(v) for v in val] != lens:
                obls.append(('the list lengths are unchanged (%s, not %s)' % (lens, [len(v) for v in val]), z3.And(g_, ob['pc']))); continue
            for i in range(n):
                for j in range(lens[i]):
                    # the answer for the element handed at position k returns to where that element came from
                    want = BV(-1)
                    for k in range(len(atoms)):
                        want = z3.If(atoms[k] == el(i, j), S(BV(k)), want)
                    obls.append(('list %d position %d receives the answer for the element it handed on' % (i, j), z3.And(g_, ob['pc'], val[i][j].val != want)))

    def replay(model, ent):
        lc = model.eval(nc.lencontent, model_completion=True).as_signed_long()
        if lc > 200:
            return False, 'content too long to replay', {}
        head0, inp0 = node_program(nc, model, lc)
        a_ = z3.is_true(model.eval(asc == 1, model_completion=True))
        counts = [sum(1 for p in parents if p == g) for g in range(outlength)]
        oo, acc = [0], 0
        for c in counts:
            acc += c; oo.append(acc)
        # same node, content values 7 * k % 11 instead of k (so that the order is not the input order)
        ntoks = head0.split()
        cnt = int(ntoks[1])
        vals = [7 * v % 11 for v in range(cnt)]
        inner = [[vals[x] for x in lst] for lst in inp0]
        nested = [inner[oo[g]:oo[g + 1]] for g in range(outlength)]
        head = 'i64 %s ' % fullnative.ints(vals) + ' '.join(ntoks[2 + cnt:]) + ' listoffset64 %s ' % fullnative.ints(oo)

        def ref(group):
            out_ = [list(l) for l in group]
            width = max([len(l) for l in group] + [0])
            for j in range(width):
                rows = [i for i, l in enumerate(group) if len(l) > j]
                col = [(group[i][j], i) for i in rows]
                order = sorted(range(len(col)), key=lambda t: (col[t][0] if a_ else -col[t][0], t))
                for r, t in zip(rows, order):
                    out_[r][j] = rows[t] if arg else col[t][0]          # argsort reports the list's index in its group (that is what the shifts are for)
            return out_
        exp = [ref(gp) for gp in nested]
        return akrun_check(head + '%s 1 %d 1' % ('argsort' if arg else 'sort', 1 if a_ else 0), exp, '%s(axis=1, ascending=%s, stable) of %s' % ('argsort' if arg else 'sort', a_, nested))
    return mdischarge(nc.m, '%s::%s non-local lens=%s parents=%s' % (cls, 'argsort_next' if arg else 'sort_next', ','.join(map(str, lens)), ','.join(map(str, parents))), obls,
                      [('non-zero offset origin', offs[0] > 0)] if cls.startswith('ListOffset') else [], replay=replay, prefer=[o <= 4 for o in offs[:1]] + [nc.lencontent <= 24],
                      extra=dict(bounds='list lengths %s and outer groups %s concrete (case split); offsets origin, direction and stability symbolic; opaque leaf content' % (lens, parents)))


def jobs_sort_nonlocal(tier):
    q = [((2, 1), (0, 0)), ((1, 2, 1), (0, 0, 1)), ((0, 1, 1), (0, 0, 1))]
    if tier != 'quick':
        q += [((0, 2, 1, 2), (0, 0, 1, 1)), ((2, 0, 3), (0, 1, 1)), ((1, 1, 1), (0, 0, 0)), ((2, 2), (0, 2))]
    js = [(h_sort_nonlocal, (l, p, a), 1800) for l, p in q for a in (False, True)]
    for k, cls in enumerate(('ListArray32', 'ListArray64', 'ListArrayU32', 'RegularArray')):
        for l, p in ([((2, 2), (0, 0))] if cls == 'RegularArray' else (q[1:2] if tier == 'quick' else q[:4])):
            js.append((h_sort_nonlocal, (l, p, bool(k % 2), cls), 1800))
    return js


# ------------------------------------------------------------------------------------------------ C06: sorting through an option node (None re-insertion)
@guard
def h_option_sort(pattern, parents_c):
    """IndexedOptionArray64::sort_next at the leaf level: the content is handed exactly the valid entries, in order, each with the group of its
    position; in the answer every group keeps its number of entries: first what the content answered for that group's valid entries (in the
    content's order), then as many None as the group had"""
    pattern = tuple(map(bool, pattern))
    parents_c = list(parents_c)
    n = len(pattern)
    nc = NodeCtx(['IA', 'RA', 'LOA', 'IDX', 'CNT', 'UTL', 'KD', 'IDS'], [], unwind=max(12, 3 * n + 10))
    seen = []
    S = z3.Function('SORTED', z3.BitVecSort(64), z3.BitVecSort(64))

    def s_sort_next(eng, fr, ins, st, name, argv):
        sret, selfp, negaxis, starts, parents_, outl, asc, stb = argv
        nm, info = nc.content_info(selfp, st, eng)
        seen.append(dict(pc=st.pc, info=info, negaxis=negaxis, parents=nc.index_terms(st.mem, parents_, 'parents')[0], outlength=outl, asc=asc, stb=stb))
        k = z3.BitVec('k!', 64)
        nc._ret(st, sret, nc.fresh_content(eng, st, info['length'], z3.Lambda([k], S(k)), derived='sorted'))
        return None
    nc.m.eng.stubs['vf$slot%d' % nc.slot('9sort_nextElRKNS_7IndexOfIlEES4_lbb')] = s_sort_next
    nc.m.eng.stubs['vf$slot%d' % nc.slot('12branch_depthEv')] = lambda eng, fr, ins, st, name, argv: [z3.BitVecVal(0, 8), BV(1)]
    this, idx = build_option64(nc, pattern)
    G = max(parents_c) + 1 if parents_c else 1
    first_of = {g: sum(1 for p in parents_c if p < g) for g in range(G)}        # groups are contiguous and in order: group g starts after all entries of the earlier groups

    def index64(name, vals):
        arr = z3.K(z3.BitVecSort(64), BV(0))
        for i, v in enumerate(vals):
            arr = z3.Store(arr, BV(i), BV(v))
        d = nc.m.array(name + '_data', ('i', 64), max(1, len(vals)), const=True, arr=arr)
        cells = {}
        nc.index_cells(cells, 0, d, BV(0), BV(len(vals)))
        return nc.m.record(name, cells, const=True)
    parents, starts = index64('parents', parents_c), index64('starts', [first_of[g] for g in range(G)])
    asc, stb = nc.m.bv('ascending', 1), nc.m.bv('stable', 1)
    nc.m.record('ret', {})
    cands = [f for mod_ in nc.m.eng.mods for f in mod_.func_src if f.startswith('_ZNK7awkward14IndexedArrayOfIlLb1EE9sort_nextE')]
    out = nc.m.call(cands[0], [Ptr('ret', 0), this, BV(1), starts, parents, BV(G), asc, stb])
    obls = [('sort_next does not raise', out.raised), ('the content is asked', z3.Not(z3.Or([ob['pc'] for ob in seen] + [z3.BoolVal(False)])))]
    valid = [i for i, m_ in enumerate(pattern) if not m_]
    for ob in seen:
        g, info = ob['pc'], ob['info']
        obls.append(('the content handed over holds exactly the valid entries', z3.And(g, info['length'] != len(valid))))
        for k, i in enumerate(valid):
            obls.append(('entry %d handed over is valid entry %d (position %d)' % (k, k, i), z3.And(g, z3.Select(info['atoms'], BV(k)) != idx[i])))
        if len(ob['parents']) != len(valid):
            obls.append(('one group per valid entry', g))
        else:
            for k, i in enumerate(valid):
                obls.append(('group of valid entry %d is the group of its position' % k, z3.And(g, ob['parents'][k] != parents_c[i])))
        obls.append(('direction, stability, negaxis and the number of groups are handed on unchanged', z3.And(g, z3.Or(ob['asc'] != asc, ob['stb'] != stb, ob['negaxis'] != 1, ob['outlength'] != G))))
    # expected: per group, answers for its valid entries (handed positions in order) then None
    want = []
    for gi in range(G):
        members = [i for i, p in enumerate(parents_c) if p == gi]
        ks = [k for k, i in enumerate(valid) if parents_c[i] == gi]
        for r, i in enumerate(members):
            want.append(Elem(S(BV(ks[r]))) if r < len(ks) else NONE)
    for g, res in nodeh.decode_cases(nc, out.mem, nc.m.cell('ret', 0)):
        if res is None:
            obls.append(('a result is returned', z3.And(g, z3.Not(out.raised))))
        else:
            obls += [(nm, z3.And(g, c)) for nm, c in nodeh.compare_value(res, want)]

    def replay(model, ent):
        iv = [model.eval(x, model_completion=True).as_signed_long() for x in idx]
        lc = max([model.eval(nc.lencontent, model_completion=True).as_signed_long(), 1] + [v + 1 for v in iv])
        if lc > 60:
            return False, 'content too long to replay', {}
        a_ = z3.is_true(model.eval(asc == 1, model_completion=True))
        vals = [7 * v % 11 for v in range(lc)]
        counts = [sum(1 for p in parents_c if p == gi) for gi in range(G)]
        oo, acc = [0], 0
        for c in counts:
            acc += c; oo.append(acc)
        entries = [None if v < 0 else vals[v] for v in iv]
        prog = 'i64 %s option64 %s listoffset64 %s sort 1 %d 1' % (fullnative.ints(vals), fullnative.ints(iv), fullnative.ints(oo), 1 if a_ else 0)
        exp = []
        for gi in range(G):
            grp = entries[oo[gi]:oo[gi + 1]]
            present = sorted([x for x in grp if x is not None], reverse=not a_)
            exp.append(present + [None] * (len(grp) - len(present)))
        return akrun_check(prog, exp, 'sort(axis=1, ascending=%s) of lists %s of option-type numbers %s' % (a_, counts, entries))
    return mdischarge(nc.m, 'IndexedOptionArray64::sort_next pattern=%s groups=%s' % (''.join('N' if p else 'v' for p in pattern), parents_c), obls, [], replay=replay, prefer=[nc.lencontent <= 8],
                      extra=dict(bounds='%d entries, missing pattern and groups concrete (case split), index values, direction and stability symbolic' % n))


def jobs_option_sort(tier):
    q = [((0, 1, 0), (0, 0, 0)), ((1, 0, 0, 1), (0, 0, 1, 1)), ((1, 1), (0, 0)), ((0, 0), (0, 1))]
    if tier != 'quick':
        q += [((0, 1, 1, 0, 1), (0, 0, 1, 1, 1)), ((1,), (0,)), ((0, 1, 0, 1), (0, 1, 1, 2)), ((0, 0, 0), (0, 0, 0))]
    return [(h_option_sort, a, 1800) for a in q]


# ------------------------------------------------------------------------------------------------ C17 / C10: field queries of a record array
def s_to_string(eng, fr, ins, st, name, argv):
    """std::to_string of a concrete small integer: a real SSO string"""
    sret, v = argv[0], z3.simplify(argv[1])
    if not z3.is_bv_value(v):
        raise Unsupported('std::to_string of a symbolic value')
    t = str(v.as_signed_long())
    o = st.mem.o[sret.obj]
    o.cells[sret.off] = (Ptr(sret.obj, sret.off + 16), 8)
    o.cells[sret.off + 8] = (BV(len(t)), 8)
    for j, ch in enumerate(t.encode() + b'\0'):
        o.cells[sret.off + 16 + j] = (BV(ch, 8), 1)
    for j in range(len(t) + 1, 16):
        o.cells[sret.off + 16 + j] = (BV(0, 8), 1)
    return None


def s_string_fill(eng, fr, ins, st, name, argv):
    """std::string::_M_construct(n, c): n copies of c (a concrete small n: what std::to_string starts from)"""
    this, n, c = argv[0], z3.simplify(argv[1]), argv[2]
    if not z3.is_bv_value(n) or n.as_long() > 15:
        raise Unsupported('std::string(n, c) with a symbolic or long n')
    k = n.as_long()
    o = st.mem.o[this.obj]
    o.cells[this.off] = (Ptr(this.obj, this.off + 16), 8)
    o.cells[this.off + 8] = (BV(k), 8)
    c8 = c if c.size() == 8 else z3.Extract(7, 0, c)
    for j in range(16):
        o.cells[this.off + 16 + j] = (c8 if j < k else BV(0, 8), 1)
    return None


@guard
def h_record_keys(names, nfields, key):
    """RecordArray::keys / haskey / numfields: a record array lists its field names in declaration order (a tuple, which has none, lists the
    positions "0", "1", ...), has a key exactly when it is one of those names or a position in range, and counts its fields"""
    named = names is not None
    nc = NodeCtx(['REC', 'IA', 'IDX', 'CNT', 'UTL', 'KD', 'IDS'], [], unwind=max(16, 6 * nfields + 12))
    nc.m.eng.stubs.update(string_stubs(nc))
    nc.m.eng.stubs['_ZNSt7__cxx119to_stringEl'] = s_to_string
    nc.m.eng.stubs['_ZNSt7__cxx1112basic_stringIcSt11char_traitsIcESaIcEE12_M_constructEmc'] = s_string_fill
    if named:
        this, vals, lens = build_named_record(nc, tuple(names), 2)
        expect = list(names)
    else:
        this, vals, lens = build_record(nc, nfields, 2)
        expect = [str(i) for i in range(nfields)]
    nc.m.record('ret', {})
    o1 = nc.m.call('_ZNK7awkward11RecordArray4keysB5cxx11Ev', [Ptr('ret', 0), this])
    obls = [('keys does not raise', o1.raised)]
    rec = o1.mem.o['ret']
    from .llbmc import is_ptr
    b, e = rec.cells[0][0], rec.cells[8][0]
    got = []
    if is_ptr(b):
        bc = [q for g, q in nodeh.ptr_cases(b) if q.obj is not None]
        ec = [q for g, q in nodeh.ptr_cases(e) if q.obj is not None]
        if bc:
            for off in range(bc[0].off, ec[0].off, 32):
                got.append(_read_string(o1.mem, Ptr(bc[0].obj, off)))
    obls.append(('keys are the field names in declaration order (%s)' % got, z3.BoolVal(got != expect)))
    o2 = nc.m.call('_ZNK7awkward11RecordArray9numfieldsEv', [this])
    obls.append(('numfields counts the fields', z3.Or(o2.raised, o2.ret != len(expect))))
    cells = {}
    _string_cells(cells, 0, 'key', key)
    kp = nc.m.record('key', cells, const=True)
    o3 = nc.m.call('_ZNK7awkward11RecordArray6haskeyERKNSt7__cxx1112basic_stringIcSt11char_traitsIcESaIcEEE', [this, kp])
    try:
        has = key in expect or (0 <= int(key) < len(expect))
    except ValueError:
        has = key in expect
    r3 = o3.ret if o3.ret.size() == 1 else z3.Extract(0, 0, o3.ret)
    obls.append(('haskey("%s") is %s' % (key, has), z3.Or(o3.raised, (r3 == 1) != z3.BoolVal(has))))
    return mdischarge(nc.m, 'RecordArray %s keys / haskey("%s")' % (list(names) if named else 'tuple of %d' % nfields, key), obls, [], replay=None,
                      extra=dict(bounds='field names and the key concrete (case split)'))


@guard
def h_record_key_at(names, nfields, position=None):
    """RecordArray::key(fieldindex) for any 64-bit position: the name of that field (the position spelled out for a tuple) when 0 <= position <
    numfields, refused with std::invalid_argument otherwise - also below zero"""
    named = names is not None
    nc = NodeCtx(['REC', 'IA', 'IDX', 'CNT', 'UTL', 'KD', 'IDS'], [], unwind=max(16, 6 * nfields + 12))
    nc.m.eng.stubs.update(string_stubs(nc))
    nc.m.eng.stubs.update(nodeh.STRING_LENGTH_STUBS)          # error texts: lengths only
    nc.m.eng.stubs['_ZNSt7__cxx119to_stringEl'] = s_to_string_sym
    if named:
        this, vals, lens = build_named_record(nc, tuple(names), 2)
        expect = list(names)
    else:
        this, vals, lens = build_record(nc, nfields, 2)
        expect = [str(i) for i in range(nfields)]
    pos = nc.m.bv('fieldindex')
    if position is not None:          # (named fields: the names are a vector of string objects, read at a concrete position - case split)
        nc.m.assume(pos == position)
    nc.m.record('ret', {})
    out = nc.m.call('_ZNK7awkward11RecordArray3keyB5cxx11El', [Ptr('ret', 0), this, pos if position is None else BV(position)])
    inside = z3.And(pos >= 0, pos < len(expect))
    obls = [('raises exactly when the position is outside 0 <= position < numfields', out.raised != z3.Not(inside))]
    ty = out.mem.o.get('exc!type')
    if ty is not None:
        obls.append(('a position outside is refused with std::invalid_argument', z3.And(out.raised, ty.cells[0][0] != nc.m.eng.typeid_of('_ZTISt16invalid_argument'))))
    ln = out.mem.o['ret'].cells.get(8)
    if ln is not None:
        for i, nm in enumerate(expect):
            obls.append(('position %d: a name of %d characters' % (i, len(nm)), z3.And(z3.Not(out.raised), pos == i, ln[0] != len(nm))))

    def replay(model, ent):
        v = model.eval(pos, model_completion=True).as_signed_long()
        drv = KEYAT_DRIVER
        try:
            exe = fullnative.link_driver(drv, 'reckeyat')
        except Exception as e:      # noqa
            return False, 'replay driver did not build: %s' % str(e)[-400:], {}
        import subprocess, os
        want = expect[v] if 0 <= v < len(expect) else '!'
        r = subprocess.run([exe, str(v), want, '1' if named else '0'] + expect, capture_output=True, text=True, timeout=30, env=dict(os.environ, ASAN_OPTIONS='detect_leaks=0'), errors='replace')
        payload = dict(fields=expect, named=named, position=v, expected=want, native=r.stdout.strip())
        if r.returncode != 0:
            return True, '%s %s asked for key(%d): native %s (expected %s)' % ('record array' if named else 'tuple array', expect, v, r.stdout.strip() or r.stderr[-200:], 'std::invalid_argument' if want == '!' else want), payload
        return False, 'native agrees (%s)' % r.stdout.strip(), payload
    tw = ([('a position inside', inside)] if expect else []) + [('a position outside', z3.Not(inside))] if position is None else []
    return mdischarge(nc.m, 'RecordArray %s key(%s)' % (list(names) if named else 'tuple of %d' % nfields, 'position' if position is None else position), obls, tw, replay=replay,
                      prefer=[pos >= -3, pos <= 5], extra=dict(bounds='field names concrete (case split), the position any 64-bit value'))


KEYAT_DRIVER = r"""
#include <cstdio>
#include <cstring>
#include <cstdlib>
#include <string>
#include <vector>
#include <memory>
#include <stdexcept>
#include "awkward/Index.h"
#include "awkward/Identities.h"
#include "awkward/array/NumpyArray.h"
#include "awkward/array/RecordArray.h"
using namespace awkward;
int main(int argc, char** argv) {
  // argv: position, expected name ("!" = refused), named?, field names...
  long long pos = atoll(argv[1]);
  std::string want(argv[2]);
  bool named = argv[3][0] == '1';
  int nf = argc - 4;
  ContentPtrVec contents;
  util::RecordLookupPtr lookup = named ? std::make_shared<util::RecordLookup>() : util::RecordLookupPtr(nullptr);
  for (int k = 0; k < nf; k++) {
    Index64 v(2);
    v.setitem_at_nowrap(0, 100 * k); v.setitem_at_nowrap(1, 100 * k + 1);
    contents.push_back(std::make_shared<NumpyArray>(v));
    if (named) lookup.get()->push_back(std::string(argv[4 + k]));
  }
  RecordArray rec(Identities::none(), util::Parameters(), contents, lookup, 2);
  std::string got;
  try { got = rec.key((int64_t)pos); }
  catch (std::invalid_argument& e) { got = "!"; }
  catch (std::exception& e) { got = std::string("other exception: ") + e.what(); }
  printf("key=%s\\n", got.c_str());
  return got == want ? 0 : 1;
}
"""


def s_to_string_sym(eng, fr, ins, st, name, argv):
    """std::to_string: the real text for a concrete small number, otherwise a non-empty text of unknown length"""
    v = z3.simplify(argv[1])
    if z3.is_bv_value(v):
        return s_to_string(eng, fr, ins, st, name, argv)
    return nodeh.s_some_string(eng, fr, ins, st, name, argv)


def jobs_record_key_at(tier):
    q = [(None, 2)] + [(('a', 'bc'), 2, p_) for p_ in (-1, 0, 1, 2, -2 ** 63)]
    if tier != 'quick':
        q += [(None, 0), (None, 3)] + [((), 0, p_) for p_ in (-1, 0)] + [(('x', 'yy', 'zzz'), 3, p_) for p_ in (-3, 2, 3, 2 ** 40)]
    return [(h_record_key_at, a, 900) for a in q]


FORM_OF = {   # class -> (source key, Form class, [(what, field number in the IR struct, expected value)], field number of the content form)
    'ListOffsetArray64': ('LOA', 'ListOffsetForm', [('offsets', 1, 4)], 2), 'ListOffsetArray32': ('LOA', 'ListOffsetForm', [('offsets', 1, 2)], 2),
    'ListOffsetArrayU32': ('LOA', 'ListOffsetForm', [('offsets', 1, 3)], 2),
    'ListArray64': ('LA', 'ListForm', [('starts', 1, 4), ('stops', 2, 4)], 3), 'ListArray32': ('LA', 'ListForm', [('starts', 1, 2), ('stops', 2, 2)], 3),
    'ListArrayU32': ('LA', 'ListForm', [('starts', 1, 3), ('stops', 2, 3)], 3),
    'RegularArray': ('RA', 'RegularForm', [], 1),
    'IndexedArray64': ('IA', 'IndexedForm', [('index', 1, 4)], 2), 'IndexedArray32': ('IA', 'IndexedForm', [('index', 1, 2)], 2), 'IndexedArrayU32': ('IA', 'IndexedForm', [('index', 1, 3)], 2),
    'IndexedOptionArray64': ('IA', 'IndexedOptionForm', [('index', 1, 4)], 2), 'IndexedOptionArray32': ('IA', 'IndexedOptionForm', [('index', 1, 2)], 2),
    'ByteMaskedArray': ('BMA', 'ByteMaskedForm', [('mask', 1, 0)], 3), 'BitMaskedArray': ('BIT', 'BitMaskedForm', [('mask', 1, 1)], 3), 'UnmaskedArray': ('UMA', 'UnmaskedForm', [], 1),
}
INDEX_FORM_NAMES = {0: 'i8', 1: 'u8', 2: 'i32', 3: 'u32', 4: 'i64'}


@guard
def h_node_form(cls, variant=None):
    """form(materialize) of a list / indexed / option node: a Form of the node's own kind whose index tag names the width the node really has
    (i32 / u32 / i64; i8 / u8 for masks), whose size / valid_when / lsb_order are the node's, which says "no identities" for a node without
    them, and whose content form is exactly what the content answers for itself"""
    src, fname, tags, cfield = FORM_OF[cls]
    nc = NodeCtx(['LOA', 'LA', 'RA', 'IA', 'BMA', 'BIT', 'UMA', 'IDX', 'CNT', 'UTL', 'KD', 'IDS'], [], unwind=24)
    from .mharness import module_of as _mo
    foffs, fsize, fal, ffields = _mo(SRC[src]).types.struct_layout('%"class.awkward::' + fname + '"')
    seen = []

    def s_form(eng, fr, ins, st, name, argv):
        sret, selfp, mat = argv
        item = eng.new_record(st.mem, eng.fresh_name('contentform'), 16, tag='heap')
        st.mem.o[item.obj].cells[item.off] = (Ptr('fakevt', 0), 8)
        seen.append(dict(pc=st.pc, item=item, mat=mat, receiver=selfp))
        nc._ret(st, sret, item)
        return None
    nc.m.eng.stubs['vf$slot%d' % nc.slot('4formEb')] = s_form
    extra = []
    if cls == 'RegularArray' or cls.startswith('ListOffsetArray') or cls.startswith('ListArray'):
        dims = (3, 2) if cls == 'RegularArray' else (1, 2)
        this, lists, starts, offs, short = list_node(nc, cls, dims)
        if cls == 'RegularArray':
            extra = [('size', 2, 8, BV(3))]
    elif cls.startswith('Indexed'):
        option = 'Option' in cls
        if cls.endswith('64') and not cls.endswith('U32'):
            this, idx = build_option64(nc, (False, True) if option else (False, False), option=option)
        else:
            this, idx = build_indexed(nc, cls, (False, True) if option else (False, False), nc.content0, nc.lencontent, 'node')
        short = '14IndexedArrayOfI%sLb%dEE' % ({'64': 'l', '32': 'i', 'U32': 'j'}[cls[len('IndexedOptionArray' if option else 'IndexedArray'):]], 1 if option else 0)
    elif cls == 'ByteMaskedArray':
        this, mk = build_bytemasked(nc, (False, True), bool(variant))
        short = '15ByteMaskedArray'
        extra = [('valid_when', 4, 1, BV(1 if variant else 0, 8))]
    elif cls == 'BitMaskedArray':
        vw, lsb = variant
        this, a0 = build_bitmasked(nc, (False, True, False), vw, lsb)
        short = '14BitMaskedArray'
        extra = [('valid_when', 4, 1, BV(1 if vw else 0, 8)), ('lsb_order', 5, 1, BV(1 if lsb else 0, 8))]
    else:
        this, vals = build_unmasked(nc, 2)
        short = '13UnmaskedArray'
    mat = nc.m.bv('materialize', 1)
    nc.m.record('ret', {})
    out = nc.m.call('_ZNK7awkward%s4formEb' % short, [Ptr('ret', 0), this, mat])
    obls = [('form does not raise', out.raised), ('the content is asked for its form', z3.Not(z3.Or([ob['pc'] for ob in seen] + [z3.BoolVal(False)])))]
    for ob in seen:
        m8 = ob['mat'] if ob['mat'].size() == 1 else z3.Extract(0, 0, ob['mat'])
        obls.append(('the content is asked with the same materialize flag', z3.And(ob['pc'], m8 != mat)))
    res = out.mem.o['ret'].cells[0][0]
    for g, q in nodeh.ptr_cases(res):
        g = z3.And(g, z3.Not(out.raised))
        if q.obj is None:
            obls.append(('a form is returned', g))
            continue
        o = out.mem.o[q.obj]
        vp = [str(qq.obj) for gg, qq in nodeh.ptr_cases(o.cells[q.off][0]) if qq.obj is not None]
        if not (vp and ('N7awkward%d%sE' % (len(fname), fname)) in vp[0]):
            obls.append(('the form is a %s (%s)' % (fname, vp[:1]), g))
            continue
        hid = o.cells.get(q.off + 8)
        obls.append(('a node without identities says so', z3.And(g, (hid[0] if hid else BV(1, 8)) != 0)))
        for what, fno, expect in tags:
            c = o.cells.get(q.off + foffs[fno])
            obls.append(('the %s tag is %s' % (what, INDEX_FORM_NAMES[expect]), z3.And(g, (c[0] if c else z3.BitVecVal(-1, 32)) != z3.BitVecVal(expect, 32))))
        for what, fno, width, expect in extra:
            c = o.cells.get(q.off + foffs[fno])
            obls.append(('%s is the node\'s' % what, z3.And(g, (c[0] != expect) if c is not None else z3.BoolVal(True))))
        cp = o.cells.get(q.off + foffs[cfield])
        answered = [z3.And(ob['pc'], gg) for ob in seen for gg, qq in (nodeh.ptr_cases(cp[0]) if cp else []) if qq.obj == ob['item'].obj]
        obls.append(('the content form is what the content answered', z3.And(g, z3.Not(z3.Or(answered + [z3.BoolVal(False)])))))

    def replay(model, ent):
        head = {'ListOffsetArray64': 'listoffset64 3 0 1 3', 'ListOffsetArray32': 'listoffset32 3 0 1 3', 'ListOffsetArrayU32': 'listoffsetU32 3 0 1 3',
                'ListArray64': 'list64 2 0 1 1 3', 'ListArray32': 'list32 2 0 1 1 3', 'ListArrayU32': 'listU32 2 0 1 1 3', 'RegularArray': 'regular 3 0',
                'IndexedArray64': 'indexed64 2 0 1', 'IndexedArray32': 'indexed32 2 0 1', 'IndexedArrayU32': 'indexedU32 2 0 1',
                'IndexedOptionArray64': 'option64 2 0 -1', 'IndexedOptionArray32': 'option32 2 0 -1', 'UnmaskedArray': 'unmasked'}.get(cls)
        if cls == 'ByteMaskedArray':
            head = 'bytemask 2 1 0 %d' % (1 if variant else 0)
        if cls == 'BitMaskedArray':
            head = 'bitmask 1 5 %d 3 %d' % (1 if variant[0] else 0, 1 if variant[1] else 0)
        prog = 'i64 6 0 1 2 3 4 5 ' + head + ' formjson'
        kind_, got = fullnative.akrun(prog)
        payload = dict(program=prog, native=[kind_, got])
        want = {'class': cls if cls != 'RegularArray' else 'RegularArray'}
        for what, fno, expect in tags:
            want[what] = INDEX_FORM_NAMES[expect]
        if cls == 'RegularArray':
            want['size'] = 3
        if cls == 'ByteMaskedArray':
            want['valid_when'] = bool(variant)
        if cls == 'BitMaskedArray':
            want['valid_when'], want['lsb_order'] = bool(variant[0]), bool(variant[1])
        bad = kind_ != 'OK' or not isinstance(got, dict) or any(got.get(k) != v for k, v in want.items()) or not isinstance(got.get('content'), (dict, str)) \
            or (got.get('content') if isinstance(got.get('content'), str) else got.get('content', {}).get('primitive', got.get('content', {}).get('class'))) not in ('int64', 'NumpyArray')
        if bad:
            return True, 'form of a %s over int64 numbers: native library %s %s (expected %s with an int64 content)' % (cls, kind_, str(got)[:200], want), payload
        return False, 'native form agrees (%s)' % str(got)[:80], payload
    return mdischarge(nc.m, '%s::form%s' % (cls, '' if variant is None else ' variant=%s' % (variant,)), obls, [], replay=replay,
                      extra=dict(bounds='one node of each class over an opaque content whose form is an opaque object; materialize symbolic'))


def jobs_node_form(tier):
    js = [(h_node_form, (c,), 900) for c in FORM_OF if c not in ('ByteMaskedArray', 'BitMaskedArray')]
    js += [(h_node_form, ('ByteMaskedArray', v), 900) for v in (True, False)]
    js += [(h_node_form, ('BitMaskedArray', v), 900) for v in ((True, True), (False, True), (True, False), (False, False))]
    return js


@guard
def h_numpy_form(shape, dtype):
    """NumpyArray::form: a NumpyForm whose inner shape is the array's shape without its first dimension, whose item size, format and dtype are
    the array's, and which says "no identities" for an array without them"""
    nc = NodeCtx(['NA', 'IDX', 'CNT', 'UTL', 'KD', 'IDS'], [], unwind=max(16, 4 * len(shape) + 12))
    nc.m.eng.stubs.update(string_stubs(nc))
    this, elems = build_numpynd(nc, 'np', tuple(shape), dtype)[:2]
    code, kind, isz, fmt, sgn = NP_DTYPES[dtype]
    from .mharness import module_of as _mo
    foffs, fsize, fal, ffields = _mo(SRC['NA']).types.struct_layout('%"class.awkward::NumpyForm"')
    nc.m.record('ret', {})
    out = nc.m.call('_ZNK7awkward10NumpyArray4formEb', [Ptr('ret', 0), this, z3.BitVecVal(1, 1)])
    obls = [('form does not raise', out.raised)]
    res = out.mem.o['ret'].cells[0][0]
    for g, q in nodeh.ptr_cases(res):
        g = z3.And(g, z3.Not(out.raised))
        if q.obj is None:
            obls.append(('a form is returned', g))
            continue
        o = out.mem.o[q.obj]
        vp = [str(qq.obj) for gg, qq in nodeh.ptr_cases(o.cells[q.off][0]) if qq.obj is not None]
        if not (vp and 'N7awkward9NumpyFormE' in vp[0]):
            obls.append(('the form is a NumpyForm (%s)' % (vp[:1],), g))
            continue
        hid = o.cells.get(q.off + 8)
        obls.append(('an array without identities says so', z3.And(g, (hid[0] if hid else BV(1, 8)) != 0)))
        b, e = o.cells.get(q.off + foffs[1]), o.cells.get(q.off + foffs[1] + 8)
        inner = list(shape[1:])
        bc = [qq for gg, qq in nodeh.ptr_cases(b[0]) if qq.obj is not None] if b else []
        ec = [qq for gg, qq in nodeh.ptr_cases(e[0]) if qq.obj is not None] if e else []
        if not inner:
            obls.append(('no inner dimensions', z3.And(g, z3.BoolVal(bool(bc) and bool(ec) and not _same_off(bc[0].off, ec[0].off)))))
        elif not bc or not ec or not isinstance(bc[0].off, int) or not isinstance(ec[0].off, int):
            obls.append(('the inner shape can be read back', g))
        else:
            obls.append(('%d inner dimensions' % len(inner), z3.And(g, z3.BoolVal(ec[0].off - bc[0].off != 8 * len(inner)))))
            vo = out.mem.o[bc[0].obj]
            for k_, d_ in enumerate(inner):
                c = vo.cells.get(bc[0].off + 8 * k_) if hasattr(vo, 'cells') else (z3.Select(vo.arr, BV(bc[0].off + k_)), 8)
                obls.append(('inner dimension %d is %d' % (k_, d_), z3.And(g, (c[0] != d_) if c is not None else z3.BoolVal(True))))
        c = o.cells.get(q.off + foffs[2])
        obls.append(('the item size is %d' % isz, z3.And(g, (c[0] != isz) if c is not None else z3.BoolVal(True))))
        c = o.cells.get(q.off + foffs[4])
        obls.append(('the dtype is %s' % dtype, z3.And(g, (c[0] != z3.BitVecVal(code, 32)) if c is not None else z3.BoolVal(True))))
        t = _read_string(out.mem, Ptr(q.obj, q.off + foffs[3]))
        obls.append(('the format is "%s" (%r)' % (fmt, t), z3.And(g, z3.BoolVal(t != fmt))))

    def replay(model, ent):
        total = 1
        for x in shape:
            total *= x
        prog = 'i64nd %d %s %s ' % (len(shape), ' '.join(map(str, shape)), ' '.join('1' for _ in range(total)))
        if dtype != 'int64':
            prog += 'astype %s ' % dtype
        prog += 'formjson'
        kind_, got = fullnative.akrun(prog)
        payload = dict(program=prog, native=[kind_, got])
        want_inner = list(shape[1:])
        prim = got if isinstance(got, str) else (got.get('primitive') if isinstance(got, dict) else None)
        inner_ = [] if isinstance(got, str) else (got.get('inner_shape', []) if isinstance(got, dict) else None)
        ok = kind_ == 'OK' and prim == NP_PRIMITIVE[dtype] and inner_ == want_inner and (not isinstance(got, dict) or (got.get('itemsize', isz) == isz and got.get('format', fmt) == fmt))
        if not ok:
            return True, 'form of a NumpyArray of shape %s and dtype %s: native library %s %s' % (list(shape), dtype, kind_, str(got)[:200]), payload
        return False, 'native form agrees (%s)' % str(got)[:80], payload
    return mdischarge(nc.m, 'NumpyArray::form shape=%s dtype=%s' % (list(shape), dtype), obls, [], replay=replay,
                      extra=dict(bounds='shape and dtype concrete (case split); buffer contents symbolic'))


NP_PRIMITIVE = {'int64': 'int64', 'int32': 'int32', 'uint8': 'uint8', 'float64': 'float64', 'bool': 'bool', 'uint32': 'uint32', 'int8': 'int8', 'int16': 'int16', 'uint16': 'uint16', 'uint64': 'uint64', 'float32': 'float32'}


def jobs_numpy_form(tier):
    q = [((3,), 'int64'), ((2, 3), 'int32'), ((2, 0, 2), 'uint8'), ((0,), 'float64')]
    if tier != 'quick':
        q += [((1, 2, 3), 'float64'), ((2, 1), 'bool'), ((4,), 'uint32'), ((0, 3), 'int64')]
    return [(h_numpy_form, a, 900) for a in q]


@guard
def h_record_form(names, nfields):
    """RecordArray::form: a RecordForm that shares the array's field names (none for a tuple) and holds, position by position, what each field
    content answers as its own form - as many as there are fields, in declaration order"""
    named = names is not None
    nc = NodeCtx(['REC', 'IA', 'IDX', 'CNT', 'UTL', 'KD', 'IDS'], [], unwind=max(16, 6 * nfields + 12))
    nc.m.eng.stubs.update(string_stubs(nc))
    if named:
        this, vals, lens = build_named_record(nc, tuple(names), 2)
    else:
        this, vals, lens = build_record(nc, nfields, 2)
    from .mharness import module_of as _mo
    foffs, fsize, fal, ffields = _mo(SRC['REC']).types.struct_layout('%"class.awkward::RecordForm"')
    seen = []
    BASE = 1 << 32

    def s_form(eng, fr, ins, st, name, argv):
        sret, selfp, mat = argv
        nm, info = nc.content_info(selfp, st, eng)
        item = eng.new_record(st.mem, eng.fresh_name('contentform'), 16, tag='heap')
        st.mem.o[item.obj].cells[item.off] = (Ptr('fakevt', 0), 8)
        seen.append(dict(pc=st.pc, item=item, first=z3.Select(info['atoms'], BV(0))))
        nc._ret(st, sret, item)
        return None
    nc.m.eng.stubs['vf$slot%d' % nc.slot('4formEb')] = s_form
    nc.m.record('ret', {})
    out = nc.m.call('_ZNK7awkward11RecordArray4formEb', [Ptr('ret', 0), this, z3.BitVecVal(1, 1)])
    obls = [('form does not raise', out.raised)]
    res = out.mem.o['ret'].cells[0][0]
    fo_, sz_, al_, fields_ = nc.layout_of('REC', '_ZNK7awkward11RecordArray6lengthEv')
    for g, q in nodeh.ptr_cases(res):
        g = z3.And(g, z3.Not(out.raised))
        if q.obj is None:
            obls.append(('a form is returned', g))
            continue
        o = out.mem.o[q.obj]
        vp = [str(qq.obj) for gg, qq in nodeh.ptr_cases(o.cells[q.off][0]) if qq.obj is not None]
        if not (vp and 'N7awkward10RecordFormE' in vp[0]):
            obls.append(('the form is a RecordForm (%s)' % (vp[:1],), g))
            continue
        # field names: the very list of the array (or none)
        rl = o.cells.get(q.off + foffs[1])
        mine = out.mem.o[this.obj].cells.get(this.off + fo_[3])
        same = z3.BoolVal(False)
        if rl is not None and mine is not None:
            a_, b_ = nodeh.ptr_cases(rl[0]), nodeh.ptr_cases(mine[0])
            same = z3.Or([z3.And(ga, gb, z3.BoolVal(qa.obj == qb.obj and _same_off(qa.off, qb.off))) for ga, qa in a_ for gb, qb in b_] + [z3.BoolVal(False)])
        obls.append(('the form has the array\'s own field names (%s)' % ('named' if named else 'none: a tuple'), z3.And(g, z3.Not(same))))
        b, e = o.cells.get(q.off + foffs[2]), o.cells.get(q.off + foffs[2] + 8)
        bc = [qq for gg, qq in nodeh.ptr_cases(b[0]) if qq.obj is not None] if b else []
        ec = [qq for gg, qq in nodeh.ptr_cases(e[0]) if qq.obj is not None] if e else []
        if nfields == 0:
            obls.append(('no content forms', z3.And(g, z3.BoolVal(bool(bc) and bool(ec) and not _same_off(bc[0].off, ec[0].off)))))
            continue
        if not bc or not ec or not isinstance(bc[0].off, int) or not isinstance(ec[0].off, int):
            obls.append(('the content forms can be read back', g))
            continue
        obls.append(('%d content forms' % nfields, z3.And(g, z3.BoolVal(ec[0].off - bc[0].off != 16 * nfields))))
        vo = out.mem.o[bc[0].obj]
        for k in range(min(nfields, (ec[0].off - bc[0].off) // 16)):
            c = vo.cells.get(bc[0].off + 16 * k)
            answered = [z3.And(ob['pc'], gg, ob['first'] == BV(k * BASE)) for ob in seen for gg, qq in (nodeh.ptr_cases(c[0]) if c else []) if qq.obj == ob['item'].obj]
            obls.append(('content form %d is what field %d answered' % (k, k), z3.And(g, z3.Not(z3.Or(answered + [z3.BoolVal(False)])))))

    def replay(model, ent):
        nm = list(names) if named else []
        prog = ''.join(('i64 2 %d %d ' % (10 * k, 10 * k + 1)) if k % 2 == 0 else ('f64 2 0.5 1.5 ') for k in range(nfields))
        prog += ('record %d 2 %s ' % (nfields, ' '.join(nm))) if named else ('tuple %d 2 ' % nfields)
        kind_, got = fullnative.akrun(prog + 'formjson')
        payload = dict(program=prog + 'formjson', native=[kind_, got])
        prim = lambda f: f if isinstance(f, str) else (f.get('primitive') if isinstance(f, dict) else None)
        want = ['int64' if k % 2 == 0 else 'float64' for k in range(nfields)]
        ok = kind_ == 'OK' and isinstance(got, dict) and got.get('class') == 'RecordArray'
        if ok:
            cs = got.get('contents')
            if named:
                ok = isinstance(cs, dict) and list(cs.keys()) == nm and [prim(cs[k]) for k in nm] == want
            else:
                ok = isinstance(cs, list) and [prim(x) for x in cs] == want
        if not ok:
            return True, 'form of a %s with fields %s of int64 / float64 alternating: native library %s %s' % ('record array' if named else 'tuple array', nm or nfields, kind_, str(got)[:240]), payload
        return False, 'native form agrees (%s)' % str(got)[:80], payload
    return mdischarge(nc.m, 'RecordArray::form %s' % (list(names) if named else 'tuple of %d' % nfields), obls, [], replay=replay,
                      extra=dict(bounds='field names / count concrete (case split); every field content answers with an opaque Form object'))


def jobs_record_form(tier):
    q = [(('a', 'b'), 2), (None, 3), ((), 0)]
    if tier != 'quick':
        q += [(None, 1), (('x', 'y', 'z'), 3), (None, 0), (('k',), 1)]
    return [(h_record_form, a, 900) for a in q]


TYPE_OF = {   # class -> (Type class of node.type(), its source file) ; None = the content's own type object (an indexed node is transparent)
    'ListOffsetArray64': 'ListType', 'ListOffsetArray32': 'ListType', 'ListOffsetArrayU32': 'ListType', 'ListArray64': 'ListType', 'ListArray32': 'ListType', 'ListArrayU32': 'ListType',
    'RegularArray': 'RegularType', 'IndexedArray64': None, 'IndexedArray32': None, 'IndexedArrayU32': None,
    'IndexedOptionArray64': 'OptionType', 'IndexedOptionArray32': 'OptionType', 'ByteMaskedArray': 'OptionType', 'BitMaskedArray': 'OptionType', 'UnmaskedArray': 'OptionType',
}
TYPE_SRCS = ['src/libawkward/type/ListType.cpp', 'src/libawkward/type/RegularType.cpp', 'src/libawkward/type/OptionType.cpp', 'src/libawkward/type/Type.cpp']


@guard
def h_node_type(cls, variant=None):
    """type(typestrs) of a list / indexed / option node without parameters (the path every node takes: form(true), then Form::type): lists are
    `var * T`, fixed-size lists `size * T` with the node's size, option nodes `?T` (option[T]), an indexed node has the type of its content -
    where T is exactly the type the content's own form reports"""
    tname = TYPE_OF[cls]
    nc = NodeCtx(['LOA', 'LA', 'RA', 'IA', 'BMA', 'BIT', 'UMA', 'IDX', 'CNT', 'UTL', 'KD', 'IDS', 'EA'], [], unwind=24)
    from .mharness import module_of as _mo
    from .cpp01 import vtable_slots
    for f in TYPE_SRCS:
        nc.m.eng.mods.append(_mo(f))
    nc.m.eng.stubs.update(string_stubs(nc))
    fslots, nf = vtable_slots(_mo(SRC['EA']), 'N7awkward9EmptyFormE')
    tslot = [k for s_, k in fslots.items() if '4typeERKSt3map' in s_][0]
    nc.m.record('formvt', {8 * k: (Ptr(('func', 'vf$form%d' % k), 0), 8) for k in range(nf)}, const=True)
    # the content's form (a test double with a Form vtable) and the type it reports (an opaque Type object without parameters)
    tcells = {0: (Ptr('fakevt', 0), 8)}
    nc.empty_map(tcells, 8, 'contenttype')
    _string_cells(tcells, 56, 'contenttype', '')
    ctype = nc.m.record('contenttype', tcells)
    fcells = {0: (Ptr('formvt', 0), 8), 8: (BV(0, 8), 1)}
    nc.empty_map(fcells, 16, 'contentform')
    fcells[64] = (NULL, 8); fcells[72] = (NULL, 8)
    cform = nc.m.record('contentform', fcells, const=True)
    asked = []

    def s_form(eng, fr, ins, st, name, argv):
        nc._ret(st, argv[0], cform)
        return None

    def s_form_type(eng, fr, ins, st, name, argv):
        asked.append(st.pc)
        nc._ret(st, argv[0], ctype)
        return None
    nc.m.eng.stubs['vf$slot%d' % nc.slot('4formEb')] = s_form
    nc.m.eng.stubs['vf$form%d' % tslot] = s_form_type
    size = None
    if cls == 'RegularArray' or cls.startswith('ListOffsetArray') or cls.startswith('ListArray'):
        this, lists, starts, offs, short = list_node(nc, cls, (3, 2) if cls == 'RegularArray' else (1, 2))
        size = 3 if cls == 'RegularArray' else None
    elif cls.startswith('Indexed'):
        option = 'Option' in cls
        if cls.endswith('64') and not cls.endswith('U32'):
            this, idx = build_option64(nc, (False, True) if option else (False, False), option=option)
        else:
            this, idx = build_indexed(nc, cls, (False, True) if option else (False, False), nc.content0, nc.lencontent, 'node')
        short = '14IndexedArrayOfI%sLb%dEE' % ({'64': 'l', '32': 'i', 'U32': 'j'}[cls[len('IndexedOptionArray' if option else 'IndexedArray'):]], 1 if option else 0)
    elif cls == 'ByteMaskedArray':
        this, mk = build_bytemasked(nc, (False, True), True)
        short = '15ByteMaskedArray'
    elif cls == 'BitMaskedArray':
        this, a0 = build_bitmasked(nc, (False, True, False), True, True)
        short = '14BitMaskedArray'
    else:
        this, vals = build_unmasked(nc, 2)
        short = '13UnmaskedArray'
    tsc = {}
    nc.empty_map(tsc, 0, 'typestrs')
    typestrs = nc.m.record('typestrs', tsc, const=True)
    nc.m.record('ret', {})
    cands = [f for mod_ in nc.m.eng.mods for f in mod_.func_src if f.startswith('_ZNK7awkward%s4typeERKSt3map' % short)]
    out = nc.m.call(cands[0], [Ptr('ret', 0), this, typestrs])
    obls = [('type does not raise', out.raised), ('the content\'s form is asked for its type', z3.Not(z3.Or(asked + [z3.BoolVal(False)])))]
    res = out.mem.o['ret'].cells[0][0]
    for g, q in nodeh.ptr_cases(res):
        g = z3.And(g, z3.Not(out.raised))
        if q.obj is None:
            obls.append(('a type is returned', g))
            continue
        if tname is None:
            obls.append(('an indexed node has the type of its content', z3.And(g, z3.BoolVal(q.obj != 'contenttype'))))
            continue
        o = out.mem.o[q.obj]
        vp = [str(qq.obj) for gg, qq in nodeh.ptr_cases(o.cells[q.off][0]) if qq.obj is not None] if q.off in o.cells else []
        if not (vp and ('N7awkward%d%sE' % (len(tname), tname)) in vp[0]):
            obls.append(('the type is a %s (%s)' % (tname, vp[:1]), g))
            continue
        cp = o.cells.get(q.off + 88)
        inner = [gg for gg, qq in (nodeh.ptr_cases(cp[0]) if cp else []) if qq.obj == 'contenttype']
        obls.append(('the inner type is the type the content reports', z3.And(g, z3.Not(z3.Or(inner + [z3.BoolVal(False)])))))
        if size is not None:
            c = o.cells.get(q.off + 104)
            obls.append(('the size is the node\'s', z3.And(g, (c[0] != size) if c is not None else z3.BoolVal(True))))

    def replay(model, ent):
        head = {'ListOffsetArray64': 'listoffset64 3 0 1 3', 'ListOffsetArray32': 'listoffset32 3 0 1 3', 'ListOffsetArrayU32': 'listoffsetU32 3 0 1 3',
                'ListArray64': 'list64 2 0 1 1 3', 'ListArray32': 'list32 2 0 1 1 3', 'ListArrayU32': 'listU32 2 0 1 1 3', 'RegularArray': 'regular 3 0',
                'IndexedArray64': 'indexed64 2 0 1', 'IndexedArray32': 'indexed32 2 0 1', 'IndexedArrayU32': 'indexedU32 2 0 1',
                'IndexedOptionArray64': 'option64 2 0 -1', 'IndexedOptionArray32': 'option32 2 0 -1', 'UnmaskedArray': 'unmasked',
                'ByteMaskedArray': 'bytemask 2 1 0 1', 'BitMaskedArray': 'bitmask 1 5 1 3 1'}[cls]
        prog = 'i64 6 0 1 2 3 4 5 ' + head + ' typestr'
        kind_, got = fullnative.akrun(prog)
        want = {'ListType': 'var * int64', 'RegularType': '3 * int64', 'OptionType': '?int64', None: 'int64'}[tname]
        payload = dict(program=prog, native=[kind_, got], expected=want)
        if kind_ != 'OK' or got != want:
            return True, 'type of a %s over int64 numbers: native library %s %r, expected %r' % (cls, kind_, got, want), payload
        return False, 'native type agrees (%s)' % got, payload
    return mdischarge(nc.m, '%s::type' % cls, obls, [], replay=replay,
                      extra=dict(bounds='one node of each class (no parameters, no type strings) over an opaque content whose form reports an opaque Type'))


def jobs_node_type(tier):
    return [(h_node_type, (c,), 900) for c in TYPE_OF]


@guard
def h_union_form(width, ncontents):
    """UnionArray8_<width>::form: a UnionForm whose tags are tagged i8, whose index tag names the real index width, and which holds, position
    by position, what each content answers as its own form"""
    T, bits, uns = WIDTHS[width]
    nc = NodeCtx(['UNI', 'IA', 'IDX', 'CNT', 'UTL', 'KD', 'IDS', 'EA'], [], unwind=max(16, 6 * ncontents + 12))
    BASE = 1 << 32
    kk = z3.BitVec('k!', 64)
    ptrs, lens = [nc.content0], [nc.lencontent]
    nc.m.assume(nc.lencontent >= 1, nc.lencontent <= 2 ** 20)
    for k in range(1, ncontents):
        ln = nc.m.bv('lencontent_u%d' % k)
        nc.m.assume(ln >= 1, ln <= 2 ** 20)
        ptrs.append(nc.new_content_in(nc.m.mem, 'content_u%d' % k, ln, z3.Lambda([kk], kk + k * BASE), const=True)); lens.append(ln)
    tags = [i % ncontents for i in range(ncontents + 1)]
    this, idx = build_union8_64(nc, tags, ptrs, 'node', lens, width=width)
    from .mharness import module_of as _mo
    foffs, fsize, fal, ffields = _mo(SRC['UNI']).types.struct_layout('%"class.awkward::UnionForm"')
    seen = []

    def s_form(eng, fr, ins, st, name, argv):
        sret, selfp, mat = argv
        nm, info = nc.content_info(selfp, st, eng)
        item = eng.new_record(st.mem, eng.fresh_name('contentform'), 16, tag='heap')
        st.mem.o[item.obj].cells[item.off] = (Ptr('fakevt', 0), 8)
        seen.append(dict(pc=st.pc, item=item, first=z3.Select(info['atoms'], BV(0))))
        nc._ret(st, sret, item)
        return None
    nc.m.eng.stubs['vf$slot%d' % nc.slot('4formEb')] = s_form
    nc.m.record('ret', {})
    out = nc.m.call('_ZNK7awkward12UnionArrayOfIa%sE4formEb' % T, [Ptr('ret', 0), this, z3.BitVecVal(1, 1)])
    obls = [('form does not raise', out.raised)]
    res = out.mem.o['ret'].cells[0][0]
    # field numbers: Form, tags (i32), index (i32), contents (vector)
    itag = {'64': 4, '32': 2, 'U32': 3}[width]
    for g, q in nodeh.ptr_cases(res):
        g = z3.And(g, z3.Not(out.raised))
        if q.obj is None:
            obls.append(('a form is returned', g))
            continue
        o = out.mem.o[q.obj]
        vp = [str(qq.obj) for gg, qq in nodeh.ptr_cases(o.cells[q.off][0]) if qq.obj is not None]
        if not (vp and 'N7awkward9UnionFormE' in vp[0]):
            obls.append(('the form is a UnionForm (%s)' % (vp[:1],), g))
            continue
        c = o.cells.get(q.off + foffs[1])
        obls.append(('the tags tag is i8', z3.And(g, (c[0] != z3.BitVecVal(0, 32)) if c is not None else z3.BoolVal(True))))
        c = o.cells.get(q.off + foffs[2])
        obls.append(('the index tag is %s' % INDEX_FORM_NAMES[itag], z3.And(g, (c[0] != z3.BitVecVal(itag, 32)) if c is not None else z3.BoolVal(True))))
        b, e = o.cells.get(q.off + foffs[3]), o.cells.get(q.off + foffs[3] + 8)
        bc = [qq for gg, qq in nodeh.ptr_cases(b[0]) if qq.obj is not None] if b else []
        ec = [qq for gg, qq in nodeh.ptr_cases(e[0]) if qq.obj is not None] if e else []
        if not bc or not ec or not isinstance(bc[0].off, int) or not isinstance(ec[0].off, int):
            obls.append(('the content forms can be read back', g))
            continue
        obls.append(('%d content forms' % ncontents, z3.And(g, z3.BoolVal(ec[0].off - bc[0].off != 16 * ncontents))))
        vo = out.mem.o[bc[0].obj]
        for k in range(min(ncontents, (ec[0].off - bc[0].off) // 16)):
            c = vo.cells.get(bc[0].off + 16 * k)
            answered = [z3.And(ob['pc'], gg, ob['first'] == BV(k * BASE)) for ob in seen for gg, qq in (nodeh.ptr_cases(c[0]) if c else []) if qq.obj == ob['item'].obj]
            obls.append(('content form %d is what content %d answered' % (k, k), z3.And(g, z3.Not(z3.Or(answered + [z3.BoolVal(False)])))))

    def replay(model, ent):
        prog = ''.join(('i64 2 %d %d ' % (10 * k, 10 * k + 1)) if k % 2 == 0 else 'f64 2 0.5 1.5 ' for k in range(ncontents))
        prog += 'union8_%s %d %s %s %d formjson' % (width, len(tags), ' '.join(map(str, tags)), ' '.join('0' for _ in tags), ncontents)
        kind_, got = fullnative.akrun(prog)
        payload = dict(program=prog, native=[kind_, got])
        prim = lambda f: f if isinstance(f, str) else (f.get('primitive') if isinstance(f, dict) else None)
        want = ['int64' if k % 2 == 0 else 'float64' for k in range(ncontents)]
        ok = kind_ == 'OK' and isinstance(got, dict) and got.get('class') == 'UnionArray8_%s' % width and got.get('tags') == 'i8' and got.get('index') == INDEX_FORM_NAMES[itag] \
            and isinstance(got.get('contents'), list) and [prim(x) for x in got['contents']] == want
        if not ok:
            return True, 'form of a UnionArray8_%s of %s: native library %s %s' % (width, want, kind_, str(got)[:240]), payload
        return False, 'native form agrees (%s)' % str(got)[:80], payload
    return mdischarge(nc.m, 'UnionArray8_%s::form %d contents' % (width, ncontents), obls, [], replay=replay,
                      extra=dict(bounds='index width and number of contents concrete (case split); every content answers with an opaque Form object'))


def jobs_union_form(tier):
    q = [('64', 2), ('32', 3), ('U32', 2)]
    if tier != 'quick':
        q += [('64', 1), ('64', 3), ('32', 2)]
    return [(h_union_form, a, 900) for a in q]


@guard
def h_record_depth(nfields):
    """purelist_depth / minmax_depth / branch_depth / numfields of a RecordArray over field contents of any depths: a record array is one level
    (its records) for purelist_depth; minmax_depth spans the shallowest minimum and the deepest maximum of the fields; branch_depth reports
    branching when a field branches or two fields differ in depth, with the smallest depth; without fields all of them say one level,
    consistently: minmax_depth = (1, 1), branch_depth = (false, 1)"""
    nc = NodeCtx(['REC', 'IA', 'IDX', 'CNT', 'UTL', 'KD', 'IDS'], [], unwind=max(12, 4 * nfields + 10))
    this, vals, lens = build_record(nc, nfields, 2)
    names = ['content0'] + ['content_%d' % k for k in range(1, nfields)]
    dmin = [nc.m.bv('mindepth%d' % k) for k in range(nfields)]
    dmax = [nc.m.bv('maxdepth%d' % k) for k in range(nfields)]
    bfl = [nc.m.bv('branches%d' % k) for k in range(nfields)]
    bde = [nc.m.bv('branchdepth%d' % k) for k in range(nfields)]
    for k in range(nfields):
        nc.m.assume(dmin[k] >= 1, dmin[k] <= dmax[k], dmax[k] <= 100, z3.Or(bfl[k] == 0, bfl[k] == 1), bde[k] >= 1, bde[k] <= 100)

    def which(p):
        objs = [q.obj for g, q in nodeh.ptr_cases(p) if q.obj is not None]
        if len(objs) != 1 or objs[0] not in names:
            raise Unsupported('depth asked of %s' % (objs,))
        return names.index(objs[0])
    S = nc.slot
    nc.m.eng.stubs['vf$slot%d' % S('12minmax_depthEv')] = lambda eng, fr, ins, st, name, argv: [dmin[which(argv[0])], dmax[which(argv[0])]]
    nc.m.eng.stubs['vf$slot%d' % S('12branch_depthEv')] = lambda eng, fr, ins, st, name, argv: [z3.Extract(7, 0, bfl[which(argv[0])]), bde[which(argv[0])]]
    obls = []
    o1 = nc.m.call('_ZNK7awkward11RecordArray14purelist_depthEv', [this])
    obls.append(('purelist_depth is 1', z3.Or(o1.raised, o1.ret != 1)))
    o2 = nc.m.call('_ZNK7awkward11RecordArray12minmax_depthEv', [this])
    if nfields:
        lo, hi = dmin[0], dmax[0]
        for k in range(1, nfields):
            lo = z3.If(dmin[k] < lo, dmin[k], lo); hi = z3.If(dmax[k] > hi, dmax[k], hi)
    else:
        lo = hi = BV(1)
    obls.append(('minmax_depth = (shallowest minimum, deepest maximum) of the fields%s' % ('' if nfields else ': (1, 1) without fields'), z3.Or(o2.raised, o2.ret[0] != lo, o2.ret[1] != hi)))
    o3 = nc.m.call('_ZNK7awkward11RecordArray12branch_depthEv', [this])
    if nfields:
        md = bde[0]
        for k in range(1, nfields):
            md = z3.If(bde[k] < md, bde[k], md)
        anyb = z3.Or([bfl[k] == 1 for k in range(nfields)] + [bde[k] != bde[0] for k in range(1, nfields)])
    else:
        md, anyb = BV(1), z3.BoolVal(False)
    b0 = o3.ret[0]
    obls.append(('branch_depth: branching iff a field branches or two fields differ in depth; the smallest depth', z3.Or(o3.raised, ((z3.Extract(0, 0, b0) if b0.size() > 1 else b0) == 1) != anyb, o3.ret[1] != md)))
    o5 = nc.m.call('_ZNK7awkward11RecordArray9numfieldsEv', [this])
    obls.append(('numfields counts the fields', z3.Or(o5.raised, o5.ret != nfields)))

    def replay(model, ent):
        # fields alternate between numbers (depth 1) and lists of numbers (depth 2)
        prog = ''
        for k in range(nfields):
            prog += 'i64 2 1 2 ' + ('listoffset64 3 0 1 2 ' if k % 2 else '')
        prog += 'tuple %d 2 depths' % nfields
        kind_, got = fullnative.akrun(prog)
        ds = [2 if k % 2 else 1 for k in range(nfields)]
        want = [1, min(ds) if ds else 1, max(ds) if ds else 1, len(set(ds)) > 1, min(ds) if ds else 1, nfields]
        payload = dict(program=prog, native=[kind_, got], expected=want)
        if kind_ != 'OK' or [got[0], got[1], got[2], bool(got[3]), got[4], got[5]] != want:
            return True, 'tuple array of %d fields of depths %s: [purelist_depth, min, max, branches, branch depth, numfields] = %s %s, expected %s' % (nfields, ds, kind_, got, want), payload
        return False, 'native library agrees (%s)' % (got,), payload
    return mdischarge(nc.m, 'RecordArray depth queries, %d fields' % nfields, obls, [], replay=replay,
                      extra=dict(bounds='%d field contents whose own depth answers are arbitrary (symbolic)' % nfields))


def jobs_record_depth(tier):
    return [(h_record_depth, (k,), 600) for k in ((0, 2) if tier == 'quick' else (0, 1, 2, 3))]


@guard
def h_numpy_type(shape, dtype):
    """NumpyArray::type (no parameters): a one-dimensional array is its primitive; every further dimension wraps it in a fixed-size list,
    outermost first: shape (n, 2, 3) is `2 * 3 * dtype`"""
    nc = NodeCtx(['NA', 'RA', 'IDX', 'CNT', 'UTL', 'KD', 'IDS'], [], unwind=max(16, 4 * len(shape) + 12))
    from .mharness import module_of as _mo
    for f in TYPE_SRCS + ['src/libawkward/type/PrimitiveType.cpp']:
        nc.m.eng.mods.append(_mo(f))
    nc.m.eng.stubs.update(string_stubs(nc))
    this, elems = build_numpynd(nc, 'np', tuple(shape), dtype)[:2]
    code = NP_DTYPES[dtype][0]
    tsc = {}
    nc.empty_map(tsc, 0, 'typestrs')
    typestrs = nc.m.record('typestrs', tsc, const=True)
    nc.m.record('ret', {})
    cands = [f for mod_ in nc.m.eng.mods for f in mod_.func_src if f.startswith('_ZNK7awkward10NumpyArray4typeERKSt3map')]
    out = nc.m.call(cands[0], [Ptr('ret', 0), this, typestrs])
    obls = [('type does not raise', out.raised)]
    inner = list(shape[1:])
    p = out.mem.o['ret'].cells[0][0]
    path = 'the type'
    for level, size in enumerate(inner + [None]):
        cs = [(g, q) for g, q in nodeh.ptr_cases(p) if q.obj is not None]
        if len(cs) != 1:
            obls.append(('%s can be read back' % path, z3.Not(out.raised)))
            break
        q = cs[0][1]
        o = out.mem.o[q.obj]
        vp = [str(qq.obj) for gg, qq in nodeh.ptr_cases(o.cells[q.off][0]) if qq.obj is not None] if q.off in o.cells else []
        want_cls = 'N7awkward11RegularTypeE' if size is not None else 'N7awkward13PrimitiveTypeE'
        if not (vp and want_cls in vp[0]):
            obls.append(('%s is a %s (%s)' % (path, 'fixed-size list' if size is not None else 'primitive', vp[:1]), z3.Not(out.raised)))
            break
        if size is not None:
            c = o.cells.get(q.off + 104)
            obls.append(('%s has size %d (dimension %d of the shape)' % (path, size, level + 1), z3.And(z3.Not(out.raised), (c[0] != size) if c is not None else z3.BoolVal(True))))
            p = o.cells[q.off + 88][0]
            path = path + '.inner'
        else:
            c = o.cells.get(q.off + 88)
            obls.append(('the primitive is %s' % dtype, z3.And(z3.Not(out.raised), (c[0] != z3.BitVecVal(code, 32)) if c is not None else z3.BoolVal(True))))

    def replay(model, ent):
        total = 1
        for x in shape:
            total *= x
        prog = 'i64nd %d %s %s ' % (len(shape), ' '.join(map(str, shape)), ' '.join('1' for _ in range(total)))
        if dtype != 'int64':
            prog += 'astype %s ' % dtype
        prog += 'typestr'
        kind_, got = fullnative.akrun(prog)
        want = ''.join('%d * ' % s_ for s_ in shape[1:]) + dtype
        payload = dict(program=prog, native=[kind_, got], expected=want)
        if kind_ != 'OK' or got != want:
            return True, 'type of a NumpyArray of shape %s and dtype %s: native library %s %r, expected %r' % (list(shape), dtype, kind_, got, want), payload
        return False, 'native type agrees (%s)' % got, payload
    return mdischarge(nc.m, 'NumpyArray::type shape=%s dtype=%s' % (list(shape), dtype), obls, [], replay=replay,
                      extra=dict(bounds='shape and dtype concrete (case split); no parameters, no type strings'))


def jobs_numpy_type(tier):
    q = [((3,), 'int64'), ((2, 3), 'int32'), ((1, 2, 3), 'float64')]
    if tier != 'quick':
        q += [((2, 0, 2), 'uint8'), ((0,), 'bool'), ((2, 3, 1, 2), 'int64')]
    return [(h_numpy_type, a, 900) for a in q]


# ------------------------------------------------------------------------------------------------ C14: ArrayBuilder.append(array, at) on the indexed builders
IXB = 'src/libawkward/builder/IndexedBuilder.cpp'
INDEXED_BUILDERS = {   # kind -> (builder class, array class, mangled index type)
    'I32': ('17IndexedI32Builder', 'IndexedArray32', 'i'), 'IU32': ('18IndexedIU32Builder', 'IndexedArrayU32', 'j'), 'I64': ('17IndexedI64Builder', 'IndexedArray64', 'l'),
}


def _indexed_builder(nc, kind, nindex, n, hasnull):
    """an Indexed*Builder holding n entries (symbolic) that refers to a real indexed array of nindex entries over the opaque content"""
    from .cpp01 import struct_of
    from .mharness import module_of as _mo
    bcls, acls, T = INDEXED_BUILDERS[kind]
    for f in (IXB, 'src/libawkward/builder/GrowableBuffer.cpp', 'src/libawkward/builder/ArrayBuilderOptions.cpp'):
        nc.m.eng.mods.append(_mo(f))
    mod = _mo(IXB)
    base = [k_ for k_ in mod.types.named if k_.startswith('%"class.awkward::IndexedBuilder.base')][0]
    fo, sz, al, fields = mod.types.struct_layout(base)          # Builder, options_, index_, array_, hasnull_ (the same offsets in every instantiation)
    if acls == 'IndexedArray64':
        arr, idx = build_option64(nc, (False,) * nindex, name='thearray', option=False)
    else:
        arr, idx = build_indexed(nc, acls, (False,) * nindex, nc.content0, nc.lencontent, 'thearray')
    res = nc.m.bv('reserved')
    nc.m.assume(res >= n + 1, res <= 2 ** 20)
    from .llbmc import State
    vt = nc.m.eng.global_ptr(State({}, nc.m.mem, z3.BoolVal(True)), '@_ZTVN7awkward%sE' % bcls, mod)
    buf = nc.m.array('bindex', ('i', 64), res)
    nc.m.record('b_ctrl', {0: (NULL, 8), 8: (z3.BitVecVal(1, 32), 4), 12: (z3.BitVecVal(1, 32), 4)})
    cells = {0: (Ptr(vt.obj, 16), 8), 8: (Ptr('builder', 0), 8), 16: (Ptr('b_ctrl', 0), 8), fo[1]: (BV(8), 8), fo[1] + 8: (z3.FPVal(1.5, z3.Float64()), 8),
             fo[2]: (BV(8), 8), fo[2] + 8: (z3.FPVal(1.5, z3.Float64()), 8), fo[2] + 16: (buf, 8), fo[2] + 24: (NULL, 8), fo[2] + 32: (BV(n), 8), fo[2] + 40: (res, 8),
             fo[3]: (arr, 8), fo[3] + 8: (NULL, 8), fo[4]: (BV(1 if hasnull else 0, 8), 1)}
    this = nc.m.record('builder', cells)
    return this, arr, idx, fo, z3.Array('bindex', z3.BitVecSort(64), z3.BitVecSort(64))


@guard
def h_indexed_builder_append(kind, nindex, n):
    """Indexed{I32,IU32,I64}Builder::append(array, at) with the builder's own array: the builder's index grows by one entry - the position in the
    array's *content* that entry `at` of the array shows (its index entry, read in its own width and signedness) -, earlier entries are
    untouched; so the snapshot (an indexed array over that content) shows array[at]"""
    bcls, acls, T = INDEXED_BUILDERS[kind]
    nc = NodeCtx(['IA', 'IDX', 'CNT', 'UTL', 'KD', 'IDS'], [], unwind=max(12, n + nindex + 10))
    this, arr, idx, fo, b0 = _indexed_builder(nc, kind, nindex, n, False)
    at = nc.m.bv('at')
    nc.m.assume(at >= 0, at < nindex)
    arrp = nc.m.record('arrayptr', {0: (arr, 8), 8: (NULL, 8)}, const=True)
    nc.m.record('ret', {})
    cands = [f for mod_ in nc.m.eng.mods for f in mod_.func_src if f.startswith('_ZN7awkward%s6appendERKSt10shared_ptrINS_7ContentEEl' % bcls)]
    out = nc.m.call(cands[0], [Ptr('ret', 0), this, arrp, at])
    ob = out.mem.o['builder']
    newlen = ob.cells[fo[2] + 32][0]
    bp = ob.cells[fo[2] + 16][0]
    j = z3.BitVec('j!pos', 64)
    want = idx[0]
    for k in range(1, nindex):
        want = z3.If(at == k, idx[k], want)
    obls = [('append does not raise', out.raised), ('the index grows by one entry', newlen != n + 1)]
    for g, q in nodeh.ptr_cases(bp):
        if q.obj is None:
            obls.append(('the index buffer is still there', g)); continue
        a1 = out.mem.o[q.obj].arr
        off = q.off if not isinstance(q.off, int) else BV(q.off)
        obls.append(('the new entry is the content position that entry `at` of the array shows', z3.And(g, z3.Select(a1, off + n) != want)))
        obls.append(('earlier entries are untouched', z3.And(g, j >= 0, j < n, z3.Select(a1, off + j) != z3.Select(b0, j))))

    def replay(model, ent):
        import subprocess, os
        iv = [model.eval(x, model_completion=True).as_signed_long() for x in idx]
        A = model.eval(at, model_completion=True).as_signed_long()
        lc = max([model.eval(nc.lencontent, model_completion=True).as_signed_long(), 1] + [v + 1 for v in iv])
        if lc > 50:
            return False, 'content too long to replay', {}
        try:
            exe = fullnative.link_driver(INDEXED_BUILDER_DRIVER, 'ixbuilder')
        except Exception as e:      # noqa
            return False, 'replay driver did not build: %s' % str(e)[-400:], {}
        r = subprocess.run([exe, kind, str(lc), str(A)] + [str(v) for v in iv], capture_output=True, text=True, timeout=30, env=dict(os.environ, ASAN_OPTIONS='detect_leaks=0'), errors='replace')
        payload = dict(kind=kind, index=iv, at=A, native=r.stdout.strip())
        if r.returncode != 0:
            return True, '%s of index %s over [100, 101, ...]: null, then append(array, %d) twice: %s' % (acls, iv, A, r.stdout.strip() or r.stderr[-200:]), payload
        return False, 'native builder agrees (%s)' % r.stdout.strip(), payload
    return mdischarge(nc.m, 'Indexed%sBuilder::append(own array of %d entries, at) onto %d entries' % (kind, nindex, n), obls, [], replay=replay, prefer=[nc.lencontent <= 8],
                      extra=dict(bounds='array of %d index entries (symbolic, in its own width) over an opaque content, builder holding %d entries, at symbolic' % (nindex, n)))


INDEXED_BUILDER_DRIVER = r"""
#include <cstdio>
#include <cstdlib>
#include <cstring>
#include <string>
#include <memory>
#include "awkward/Index.h"
#include "awkward/Identities.h"
#include "awkward/array/NumpyArray.h"
#include "awkward/array/IndexedArray.h"
#include "awkward/builder/ArrayBuilder.h"
#include "awkward/builder/ArrayBuilderOptions.h"
using namespace awkward;
int main(int argc, char** argv) {
  // argv: kind (I32 | IU32 | I64), content length, at, index entries...   content = [100, 101, ...]
  std::string kind(argv[1]); int64_t lc = atoll(argv[2]); int64_t at = atoll(argv[3]); int n = argc - 4;
  Index64 c(lc); for (int64_t i = 0; i < lc; i++) c.setitem_at_nowrap(i, 100 + i);
  ContentPtr content = std::make_shared<NumpyArray>(c);
  ContentPtr array;
  if (kind == "I32") { Index32 ix(n); for (int i = 0; i < n; i++) ix.setitem_at_nowrap(i, (int32_t)atoll(argv[4 + i])); array = std::make_shared<IndexedArray32>(Identities::none(), util::Parameters(), ix, content); }
  else if (kind == "IU32") { IndexU32 ix(n); for (int i = 0; i < n; i++) ix.setitem_at_nowrap(i, (uint32_t)atoll(argv[4 + i])); array = std::make_shared<IndexedArrayU32>(Identities::none(), util::Parameters(), ix, content); }
  else { Index64 ix(n); for (int i = 0; i < n; i++) ix.setitem_at_nowrap(i, atoll(argv[4 + i])); array = std::make_shared<IndexedArray64>(Identities::none(), util::Parameters(), ix, content); }
  long long want = 100 + atoll(argv[4 + at]);
  ArrayBuilder b(ArrayBuilderOptions(8, 1.5));
  b.null(); b.append(array, at); b.append(array, at);
  std::string got = b.snapshot().get()->tojson(false, 10);
  std::string exp = std::string("[null,") + std::to_string(want) + "," + std::to_string(want) + "]";
  ArrayBuilder b2(ArrayBuilderOptions(8, 1.5));
  b2.append(array, at);
  std::string got2 = b2.snapshot().get()->tojson(false, 10);
  std::string exp2 = std::string("[") + std::to_string(want) + "]";
  printf("with a null: %s (expected %s); without: %s (expected %s)\\n", got.c_str(), exp.c_str(), got2.c_str(), exp2.c_str());
  return (got == exp && got2 == exp2) ? 0 : 1;
}
"""


@guard
def h_indexed_builder_snapshot(kind, n, hasnull):
    """Indexed{I32,IU32,I64}Builder::snapshot: an IndexedArray64 - an IndexedOptionArray64 once a null was appended - whose index is the builder's
    (its n entries) over the *content* of the array the entries were taken from (the entries are content positions)"""
    bcls, acls, T = INDEXED_BUILDERS[kind]
    nc = NodeCtx(['IA', 'IDX', 'CNT', 'UTL', 'KD', 'IDS'], [], unwind=max(12, n + 12))
    this, arr, idx, fo, b0 = _indexed_builder(nc, kind, 2, n, hasnull)
    for i in range(n):
        nc.m.assume(z3.Select(b0, BV(i)) >= (-1 if hasnull else 0), z3.Select(b0, BV(i)) < nc.lencontent)
    nc.m.record('ret', {})
    out = nc.m.call('_ZNK7awkward%s8snapshotEv' % bcls, [Ptr('ret', 0), this])
    obls = [('snapshot does not raise', out.raised)]
    for g, res in nodeh.decode_cases(nc, out.mem, nc.m.cell('ret', 0)):
        g = z3.And(g, z3.Not(out.raised))
        if res is None:
            obls.append(('a snapshot is returned', g)); continue
        want_cls = 'indexedoption' if hasnull else 'indexed'
        if res['cls'] not in (want_cls, 'option' if hasnull else 'indexed'):
            obls.append(('the snapshot is an %s array (%s)' % ('option-type indexed' if hasnull else 'indexed', res['cls']), g)); continue
        obls += [(nm, z3.And(g, c)) for nm, c in nodeh.compare_value(res, [_entry(z3.Select(b0, BV(i)), hasnull) for i in range(n)])]
    return mdischarge(nc.m, 'Indexed%sBuilder::snapshot %d entries%s' % (kind, n, ', a null was appended' if hasnull else ''), obls, [], replay=None, prefer=[nc.lencontent <= 8],
                      extra=dict(bounds='%d index entries symbolic (content positions, -1 = null when a null was appended); replay: the append harness runs the same snapshot natively' % n))


def _entry(v, hasnull):
    return Elem(v, v < 0) if hasnull else Elem(v)


@guard
def h_indexed_builder_clear(kind, n):
    """Indexed*Builder::clear from any state (n entries, a null appended or not): no entries are left and the builder has forgotten that a null
    was appended - the next snapshot of a cleared builder is option-type only if a null is appended *again*"""
    bcls, acls, T = INDEXED_BUILDERS[kind]
    nc = NodeCtx(['IA', 'IDX', 'CNT', 'UTL', 'KD', 'IDS'], [], unwind=max(12, n + 10))
    this, arr, idx, fo, b0 = _indexed_builder(nc, kind, 2, n, True)
    cands = [f for mod_ in nc.m.eng.mods for f in mod_.func_src if f.startswith('_ZN7awkward14IndexedBuilderI') and f.endswith('5clearEv') and ('IndexedArrayOfI%sLb0' % T) in f]
    if not cands:
        raise Unsupported('IndexedBuilder<%s>::clear not found' % acls)
    out = nc.m.call(cands[0], [this])
    ob = out.mem.o['builder']
    obls = [('clear does not raise', out.raised), ('no entries are left', ob.cells[fo[2] + 32][0] != 0),
            ('the builder no longer remembers a null', ob.cells[fo[4]][0] != 0)]

    def replay(model, ent):
        import subprocess, os
        drv = INDEXED_BUILDER_DRIVER.replace('ArrayBuilder b(ArrayBuilderOptions(8, 1.5));\n  b.null(); b.append(array, at); b.append(array, at);', 'ArrayBuilder b(ArrayBuilderOptions(8, 1.5));\n  b.append(array, at); b.null(); b.clear(); b.null(); b.append(array, at); b.append(array, at);') \
                                   .replace('b2.append(array, at);', 'b2.append(array, at); b2.null(); b2.clear(); b2.append(array, at);').replace('printf("with a null', 'if (b2.snapshot().get()->classname() != "IndexedArray64") { printf("after append; null; clear; append the snapshot is a %s\\\\n", b2.snapshot().get()->classname().c_str()); return 1; }\n  printf("with a null')
        try:
            exe = fullnative.link_driver(drv, 'ixbuilderclear')
        except Exception as e:      # noqa
            return False, 'replay driver did not build: %s' % str(e)[-400:], {}
        r = subprocess.run([exe, kind, '3', '1', '2', '0'], capture_output=True, text=True, timeout=30, env=dict(os.environ, ASAN_OPTIONS='detect_leaks=0'), errors='replace')
        payload = dict(kind=kind, native=r.stdout.strip())
        if r.returncode != 0:
            return True, '%s: append; null; clear; append: %s' % (acls, r.stdout.strip() or r.stderr[-200:]), payload
        return False, 'native builder agrees (%s)' % r.stdout.strip(), payload
    return mdischarge(nc.m, 'Indexed%sBuilder::clear %d entries' % (kind, n), obls, [], replay=replay,
                      extra=dict(bounds='builder holding %d entries with a null appended' % n))


def jobs_indexed_builder(tier):
    js = [(h_indexed_builder_append, (k, 2, 1), 900) for k in INDEXED_BUILDERS] + [(h_indexed_builder_snapshot, (k, 2, hn), 900) for k in INDEXED_BUILDERS for hn in (False, True)]
    js += [(h_indexed_builder_clear, (k, 2), 900) for k in INDEXED_BUILDERS]
    if tier != 'quick':
        js += [(h_indexed_builder_append, (k, 3, 0), 900) for k in INDEXED_BUILDERS] + [(h_indexed_builder_snapshot, (k, 0, False), 900) for k in INDEXED_BUILDERS]
    return js


def jobs_record_keys(tier):
    q = [(('a', 'b', 'c'), 3, 'b'), (('x', 'y'), 2, 'z'), (None, 3, '2'), (None, 2, '2'), (('x', 'y'), 2, '1')]
    if tier != 'quick':
        q += [((), 0, 'a'), (None, 0, '0'), (('ab', 'a'), 2, 'a'), (None, 1, 'x')]
    return [(h_record_keys, a, 900) for a in q]


# ------------------------------------------------------------------------------------------------ C05 / C09: operations below a record array
@guard
def h_record_below(nfields, length, meth):
    """RecordArray asked for num / localindex / rpad / rpad_and_clip at an axis below itself: every field content is handed the same request, the
    answer is a record array with the same fields in the same order holding what each content answered - and exactly as many records as before,
    also when the field contents are longer than the record array"""
    nc = NodeCtx(['REC', 'IA', 'IDX', 'CNT', 'UTL', 'KD', 'IDS'], [], unwind=max(12, 3 * nfields + 10))
    mm, frag, extra = BELOW_METHODS[meth]
    F = nc.derived_stub(frag, meth)
    this, vals, lens = build_record(nc, nfields, length)
    nc.m.record('ret', {})
    if meth == 'combinations':
        rl = nc.m.record('recordlookup', {0: (NULL, 8), 8: (NULL, 8)}, const=True)
        pc__ = {}
        nc.empty_map(pc__, 0, 'noparams')
        pm = nc.m.record('noparams', pc__, const=True)
        args = [BV(2), z3.BitVecVal(0, 1), rl, pm, BV(1), BV(0)]
        cands = [f for mod_ in nc.m.eng.mods for f in mod_.func_src if f.startswith('_ZNK7awkward11RecordArray12combinationsElb')]
        out = nc.m.call(cands[0], [Ptr('ret', 0), this] + args)
    else:
        args = [BV(x) for x in extra] + [BV(1), BV(0)]
        out = nc.m.call('_ZNK7awkward11RecordArray%s' % mm, [Ptr('ret', 0), this] + args)
    obls = [('%s does not raise' % meth, out.raised)]
    calls = [(pc, a) for pc, nm, a in out.trace if nm == meth]
    obls.append(('every field content is asked', z3.BoolVal(len(calls) != nfields)))
    for pc, a in calls:
        if meth == 'combinations':
            obls.append(('a field content receives the same request (n, replacement, axis, depth)', z3.And(pc, z3.Or(a[0] != 2, a[1] != 0, a[4] != 1, a[5] != 0))))
            continue
        want_args = list(extra) + [1, 0]
        obls.append(('a field content receives the same request (same axis, same depth)', z3.And(pc, z3.Or([x != w for x, w in zip(a, want_args)]))))
    BASE = 1 << 32
    res = decode(nc, out.mem, nc.m.cell('ret', 0))
    if res['cls'] != 'record' or len(res['contents']) != nfields:
        obls.append(('the answer is a record array with the same fields', z3.BoolVal(True)))
    else:
        obls.append(('the number of records is unchanged', res['length'] != length))
        for k in range(nfields):
            for i in range(length):
                obls += compare(nodeh.at(res['contents'][k], i), Elem(F(BV(i + k * BASE))), 'record %d field %d' % (i, k))

    def replay(model, ent):
        ev = lambda t: model.eval(t, model_completion=True).as_signed_long()
        ls = [min(ev(x), length + 2) for x in lens]
        prog, fields = '', []
        for k, nlists in enumerate(ls):
            # field k: nlists lists [100k + i] * (i % 3)
            rows = [[100 * k + i] * (i % 3) for i in range(nlists)]
            flat = [x for r in rows for x in r]
            offs_, acc = [0], 0
            for r in rows:
                acc += len(r); offs_.append(acc)
            prog += 'i64 %s listoffset64 %s ' % (fullnative.ints(flat), fullnative.ints(offs_))
            fields.append(rows)
        prog += 'tuple %d %d ' % (nfields, length)
        import itertools as _it
        ref = {'num': lambda l: len(l), 'localindex': lambda l: list(range(len(l))), 'rpad': lambda l: py_pad(l, 3, False, None), 'rpad_and_clip': lambda l: py_pad(l, 3, True, None),
               'combinations': lambda l: [{'0': a_, '1': b_} for a_, b_ in _it.combinations(l, 2)]}[meth]
        op = {'num': 'num 1', 'localindex': 'localindex 1', 'rpad': 'rpad 3 1', 'rpad_and_clip': 'rpadclip 3 1', 'combinations': 'combinations 2 0 1'}[meth]
        exp = [{str(k): ref(fields[k][i]) for k in range(nfields)} for i in range(length)]
        return akrun_check(prog + op, exp, '%d records over fields of %s lists: %s(axis=1)' % (length, ls, meth))
    return mdischarge(nc.m, 'RecordArray::%s below the node, %d fields, %d records' % (meth, nfields, length), obls, [('a field content longer than the record array', lens[0] > length)] if nfields else [], replay=replay,
                      prefer=[x <= length + 2 for x in lens], extra=dict(bounds='%d fields, %d records (case split); field content lengths symbolic (>= number of records)' % (nfields, length)))


def jobs_record_below(tier, meths):
    q = [(2, 2), (1, 0)] if tier == 'quick' else [(2, 2), (1, 0), (3, 1), (1, 3), (0, 2)]
    return [(h_record_below, (nf, L, m_), 900) for nf, L in q for m_ in meths]


# ------------------------------------------------------------------------------------------------ C01: the entry point Content::getitem(Slice)
@guard
def h_getitem_entry(L, kind, step=1):
    """Content::getitem(slice) with one item on an array of L entries (the entry point of every slice: the array is wrapped in a regular
    dimension of one row, the item is applied to that row and the row is taken out again): array[i] / array[a:b:step] / array[[i0, i1]] is what
    Python gives on the list of entries; an index out of range raises"""
    from .c18 import KNONE
    nc = NodeCtx(['CNT', 'RA', 'IDX', 'UTL', 'KD', 'IDS', 'SLC', 'EA'], [], unwind=max(12, 2 * L + 10))
    nc.m.assume(nc.lencontent == L)
    atoms = [Elem(BV(i)) for i in range(L)]
    a, b = nc.m.bv('a'), nc.m.bv('b')
    if kind == 'at':
        item = nc.m.record('item', {0: (nc.vptr_of('N7awkward7SliceAtE', 'SLC'), 8), 8: (a, 8)}, const=True)
    elif kind == 'range':
        item = nc.m.record('item', {0: (nc.vptr_of('N7awkward10SliceRangeE', 'SLC'), 8), 8: (a, 8), 16: (b, 8), 24: (BV(step), 8)}, const=True)
        for v in (a, b):
            nc.m.assume(z3.Or(v == KNONE, z3.And(v >= -(2 ** 40), v <= 2 ** 40)))
    else:
        item = _slice_item(nc, 0, 'array1')
        a0 = z3.Array('it0_data', z3.BitVecSort(64), z3.BitVecSort(64))
        a, b = z3.Select(a0, BV(0)), z3.Select(a0, BV(1))
    where = _slice_object(nc, 'where', [item])
    nc.m.record('ret', {})
    kk_ = z3.BitVec('k!', 64)

    def s_at_nowrap(eng, fr, ins, st, name, argv):
        nm_, info_ = nc.content_info(argv[1], st, eng)
        st.trace = st.trace + ((st.pc, 'getitem_at_nowrap', (z3.simplify(z3.Select(info_['atoms'], argv[2])),)),)          # which original entry is asked for
        nc._ret(st, argv[0], nc.fresh_content(eng, st, BV(1), z3.Lambda([kk_], kk_ + 900), derived='element'))
        return None
    nc.m.eng.stubs['vf$slot%d' % nc.slot('17getitem_at_nowrapEl')] = s_at_nowrap
    out = nc.m.call('_ZNK7awkward7Content7getitemERKNS_5SliceE', [Ptr('ret', 0), nc.content0, where])
    wrap = lambda v: z3.If(v < 0, v + L, v)
    if kind == 'at':
        r = wrap(a)
        inr = z3.And(r >= 0, r < L)
        obls = [('raises exactly when the index is out of range', z3.simplify(out.raised) != z3.Not(inr))]
        # array[i] of an opaque array is what its own getitem_at_nowrap answers: observed as the call
        calls = [(pc, t) for pc, nm, t in out.trace if 'getitem_at' in str(nm)]
        obls.append(('the entry taken out is the one at the wrapped index', z3.And(z3.Not(out.raised), z3.Not(z3.Or([z3.And(pc, t[0] == r) for pc, t in calls if t] + [z3.BoolVal(False)])))))
    elif kind == 'range':
        from .c18 import slice_sel
        obls = [('a range never raises', out.raised)]
        res = decode(nc, out.mem, nc.m.cell('ret', 0))
        ln, el = opaque_seq(res)
        first, cnt = slice_sel(BV(L), a, b, step)
        p = z3.BitVec('p!pos', 64)
        obls += [('the answer has len(range(*slice.indices(L))) entries', ln != cnt), ('entry p of the answer is entry first + p * step', z3.And(p >= 0, p < cnt, el(p) != first + p * step))]
    else:
        ra, rb = wrap(a), wrap(b)
        inr = z3.And(ra >= 0, ra < L, rb >= 0, rb < L)
        obls = [('raises exactly when an index is out of range', z3.simplify(out.raised) != z3.Not(inr))]
        rp = nc.m.cell('ret', 0)
        if rp is not None and any(q.obj is not None for g, q in nodeh.ptr_cases(rp)):
            res = decode(nc, out.mem, rp)
            ln, el = opaque_seq(res)
            okp = z3.And(inr, z3.Not(out.raised))
            obls += [('two entries', z3.And(okp, ln != 2)), ('entry 0 is array[i0]', z3.And(okp, el(BV(0)) != ra)), ('entry 1 is array[i1]', z3.And(okp, el(BV(1)) != rb))]

    def replay(model, ent):
        ev = lambda t: model.eval(t, model_completion=True).as_signed_long()
        A, B = ev(a), ev(b)
        vals = list(range(100, 100 + L))
        tok = lambda v: 'NONE' if v == KNONE else str(v)
        pyv = lambda v: None if v == KNONE else v
        if kind == 'at':
            prog = 'i64 %s getitem 1 at %d' % (fullnative.ints(vals), A)
            try:
                exp = vals[A]
            except IndexError:
                exp = None
        elif kind == 'range':
            prog = 'i64 %s regular 1 %d getitem 1 range %s %s %d' % (fullnative.ints(vals), L, tok(A), tok(B), step)
            exp = [[x] for x in vals[slice(pyv(A), pyv(B), step)]]
        else:
            prog = 'i64 %s regular 1 %d getitem 1 array 2 %d %d' % (fullnative.ints(vals), L, A, B)
            try:
                exp = [[vals[A]], [vals[B]]]
            except IndexError:
                exp = None
        k_, got = fullnative.akrun(prog)
        payload = dict(program=prog, native=[k_, got], expected=exp)
        if exp is None:
            if k_ != 'ERR':
                return True, 'an index out of range on %d entries must raise; the native library returns %s %s' % (L, k_, got), payload
            return False, 'native library raises, as Python does', payload
        if k_ != 'OK' or got != exp:
            return True, '%s: native library %s %s, Python gives %s' % (prog, k_, str(got)[:150], exp), payload
        return False, 'native library agrees (%s)' % str(got)[:80], payload
    small = lambda v: z3.Or(v == KNONE, z3.And(v >= -6, v <= 6))
    return mdischarge(nc.m, 'Content::getitem [%s%s] on %d entries' % (kind, ' step %d' % step if kind == 'range' else '', L), obls, [], replay=replay, prefer=[small(a), small(b)],
                      extra=dict(bounds='%d entries (case split); index / start / stop any int64 (None included for ranges)' % L))


def jobs_getitem_entry(tier):
    js = []
    for L in ((0, 3) if tier == 'quick' else (0, 1, 2, 3, 4)):
        js.append((h_getitem_entry, (L, 'at'), 900))
        js.append((h_getitem_entry, (L, 'array'), 900))
        for st in ((1, -1) if tier == 'quick' else (1, 2, -1, -2)):
            js.append((h_getitem_entry, (L, 'range', st), 900))
    return js


# ------------------------------------------------------------------------------------------------ C05 / C09: a negative axis through a record
@guard
def h_axis_through_record(meth, axis, nfields=1, outer=(2, 1), deep_second=False):
    """num / localindex / rpad of a three-level structure built from real nodes - lists of records whose fields are lists over an opaque leaf -
    at the innermost list level, addressed as axis=2 and as axis=-1: both name the same level, so both give the counts / positions / padded
    lists of the innermost lists, field by field, and leave the outer lists and the records as they were"""
    n_rec = sum(outer)
    inner_lens = [(2, 1, 2, 0, 3)[i % 5] for i in range(n_rec)]
    nc = NodeCtx(['LOA', 'REC', 'NA', 'IA', 'RA', 'IDX', 'CNT', 'UTL', 'KD', 'IDS'], [], unwind=max(12, 3 * n_rec + sum(inner_lens) + 10))
    nc.m.eng.stubs['vf$slot%d' % nc.slot('14purelist_depthEv')] = lambda eng, fr, ins, st, name, argv: BV(1)
    nc.m.eng.stubs['vf$slot%d' % nc.slot('12minmax_depthEv')] = lambda eng, fr, ins, st, name, argv: [BV(1), BV(1)]
    nc.m.eng.stubs['vf$slot%d' % nc.slot('12branch_depthEv')] = lambda eng, fr, ins, st, name, argv: [z3.BitVecVal(0, 8), BV(1)]
    leaf0, leaflen = nc.content0, nc.lencontent
    fields, inner_lists_ = [], []
    # the field contents: list nodes over the leaf (field 0) / over further opaque leaves (other fields)
    this_in, lists_in, offs_in = build_listoffset64(nc, inner_lens, name='inner0')
    fields.append(this_in); inner_lists_.append(lists_in)
    BASE = 1 << 32
    for k in range(1, nfields):
        clen = nc.m.bv('lenleaf%d' % k)
        kk = z3.BitVec('k!', 64)
        nc.content0 = nc.new_content_in(nc.m.mem, 'leaf_%d' % k, clen, z3.Lambda([kk], kk + k * BASE), const=True)
        nc.lencontent = clen
        nc.m.assume(clen <= 2 ** 20)
        if deep_second and k == 1:
            # this field is one list level deeper than the first: the record's branches differ in depth, a negative axis stays unresolved down to
            # the fields and each field resolves it for itself
            mid_lens = [(1, 2)[r_ % 2] for r_ in range(n_rec)]
            in1_lens = [(2, 1, 0)[q_ % 3] for q_ in range(sum(mid_lens))]
            t1, l1, o1 = build_listoffset64(nc, in1_lens, name='inner1')
            l1 = [[Elem(z3.simplify(e.val + k * BASE)) for e in lst] for lst in l1]
            nc.content0, nc.lencontent = t1, BV(len(in1_lens))
            t_, _l, o_ = build_listoffset64(nc, mid_lens, name='mid1')
            l_, pos_ = [], 0
            for m_ in mid_lens:
                l_.append(l1[pos_:pos_ + m_]); pos_ += m_
            fields.append(t_); inner_lists_.append(l_)
            continue
        t_, l_, o_ = build_listoffset64(nc, inner_lens, name='inner%d' % k)
        l_ = [[Elem(z3.simplify(e.val + k * BASE)) for e in lst] for lst in l_]
        fields.append(t_); inner_lists_.append(l_)
    # the record node over the field list nodes
    fo, sz, al, flds = nc.layout_of('REC', '_ZNK7awkward11RecordArray6lengthEv')
    cells = {}
    for i, p in enumerate(fields):
        cells[16 * i] = (p, 8); cells[16 * i + 8] = (NULL, 8)
    nc.m.record('rec_contents', cells, const=True)
    nb = 16 * nfields
    hdr = nc.content_header('rec', nc.vptr_of('N7awkward11RecordArrayE', 'REC'))
    hdr.update({fo[1]: (NULL, 8), fo[1] + 8: (NULL, 8), fo[2]: (Ptr('rec_contents', 0), 8), fo[2] + 8: (Ptr('rec_contents', nb), 8), fo[2] + 16: (Ptr('rec_contents', nb), 8),
                fo[3]: (NULL, 8), fo[3] + 8: (NULL, 8), fo[4]: (BV(n_rec), 8), fo[5]: (NULL, 8), fo[5] + 8: (NULL, 8), fo[5] + 16: (NULL, 8)})
    rec = nc.m.record('rec', hdr, const=True)
    # the outer list node over the records
    nc.content0, nc.lencontent = rec, BV(n_rec)
    this, lists_out, offs_out = build_listoffset64(nc, list(outer), name='node')
    nc.content0, nc.lencontent = leaf0, leaflen
    nc.m.record('ret', {})
    mm = {'num': '3numEll', 'localindex': '10localindexEll', 'rpad': '4rpadElll', 'rpad_and_clip': '13rpad_and_clipElll'}[meth]
    pre = [BV(3)] if meth.startswith('rpad') else []
    out = nc.m.call('_ZNK7awkward17ListOffsetArrayOfIlE' + mm, [Ptr('ret', 0), this] + pre + [BV(axis), BV(0)])
    obls = [('%s(axis=%d) does not raise' % (meth, axis), out.raised)]

    def per_list(lst):
        if lst and isinstance(lst[0], list) or (deep_second and lst == [] and False):
            return [per_list(x) for x in lst]          # the deeper field: its own innermost lists
        if meth == 'num':
            return Elem(BV(len(lst)))
        if meth == 'localindex':
            return [Elem(BV(j)) for j in range(len(lst))]
        return (lst + [NONE] * max(0, 3 - len(lst)))[:(3 if meth == 'rpad_and_clip' else None)]
    want, r = [], 0
    if axis in (1, -2):
        # the level of the outer lists (the lists that hold the records): addressed as 1 from the outside, as -2 from the leaves
        if meth not in ('num', 'localindex'):
            raise Unsupported('only num / localindex are stated for the record-holding level')
        want = [Elem(BV(L)) if meth == 'num' else [Elem(BV(i)) for i in range(L)] for L in outer]
    else:
        for L in outer:
            want.append([[per_list(inner_lists_[k][r + i]) for k in range(nfields)] for i in range(L)])
            r += L
    for g, res in nodeh.decode_cases(nc, out.mem, nc.m.cell('ret', 0)):
        if res is None:
            obls.append(('a result is returned', z3.And(g, z3.Not(out.raised))))
        else:
            obls += [(nm, z3.And(g, c)) for nm, c in nodeh.compare_value(res, want)]

    def replay(model, ent):
        prog, rows = '', []
        for k in range(nfields):
            if deep_second and k == 1:
                mid_lens = [(1, 2)[r_ % 2] for r_ in range(n_rec)]
                in1_lens = [(2, 1, 0)[q_ % 3] for q_ in range(sum(mid_lens))]
                flat, offs_, inner_rows = [], [0], []
                for q_, L in enumerate(in1_lens):
                    row = [500 + 10 * q_ + j for j in range(L)]
                    flat += row; offs_.append(len(flat)); inner_rows.append(row)
                mo, frows, pos_ = [0], [], 0
                for m_ in mid_lens:
                    frows.append(inner_rows[pos_:pos_ + m_]); pos_ += m_; mo.append(pos_)
                prog += 'i64 %s listoffset64 %s listoffset64 %s ' % (fullnative.ints(flat), fullnative.ints(offs_), fullnative.ints(mo))
                rows.append(frows)
                continue
            flat, offs_, frows = [], [0], []
            for i, L in enumerate(inner_lens):
                row = [100 * k + 10 * i + j for j in range(L)]
                flat += row; offs_.append(len(flat)); frows.append(row)
            prog += 'i64 %s listoffset64 %s ' % (fullnative.ints(flat), fullnative.ints(offs_))
            rows.append(frows)
        prog += 'tuple %d %d ' % (nfields, n_rec)
        oo = [0]
        for L in outer:
            oo.append(oo[-1] + L)
        prog += 'listoffset64 %s ' % fullnative.ints(oo)
        ref0 = {'num': len, 'localindex': lambda l: list(range(len(l))), 'rpad': lambda l: py_pad(l, 3, False, None), 'rpad_and_clip': lambda l: py_pad(l, 3, True, None)}[meth]
        ref = lambda l: [ref0(x) for x in l] if (l and isinstance(l[0], list)) else ref0(l)
        op = {'num': 'num %d', 'localindex': 'localindex %d', 'rpad': 'rpad 3 %d', 'rpad_and_clip': 'rpadclip 3 %d'}[meth] % axis
        exp = [[{str(k): ref(rows[k][i]) for k in range(nfields)} for i in range(oo[j], oo[j + 1])] for j in range(len(outer))]
        if axis in (1, -2):
            exp = [L if meth == 'num' else list(range(L)) for L in outer]
        return akrun_check(prog + op, exp, 'lists %s of records with %d list-typed fields (inner lengths %s): %s(axis=%d)' % (list(outer), nfields, inner_lens, meth, axis))
    return mdischarge(nc.m, 'list[record[list]]::%s axis=%d fields=%d outer=%s%s' % (meth, axis, nfields, ','.join(map(str, outer)), ' (second field one level deeper)' if deep_second else ''), obls, [], replay=replay, prefer=[leaflen <= 24],
                      extra=dict(bounds='outer lists %s, %d fields, inner list lengths %s concrete; inner origins and leaf lengths symbolic; three real node levels over opaque leaves' % (list(outer), nfields, inner_lens)))


def jobs_axis_through_record(tier, meths):
    js = [(h_axis_through_union, (m_,), 1800) for m_ in meths if m_ in ('num', 'localindex')]
    for m_ in meths:
        if tier == 'quick':
            js += [(h_axis_through_record, (m_, -1, 2), 1800), (h_axis_through_record, (m_, 2, 1), 1800)]
            if m_ in ('num', 'localindex'):
                js.append((h_axis_through_record, (m_, -2, 1), 1800))
            js.append((h_axis_through_record, (m_, -1, 2, (2, 1), True), 1800))
        else:
            for outer in ((2, 1), (0, 3), (1, 1, 2), (4,)):
                for nf in (1, 2, 3):
                    for ax in (2, -1):
                        js.append((h_axis_through_record, (m_, ax, nf, outer), 1800))
            if m_ in ('num', 'localindex'):
                for ax in (1, -2):
                    for nf in (1, 2):
                        js.append((h_axis_through_record, (m_, ax, nf, (2, 1)), 1800))
            for outer in ((2, 1), (1, 1, 2)):
                js.append((h_axis_through_record, (m_, -1, 2, outer, True), 1800))
    return js


# ------------------------------------------------------------------------------------------------ C06: missing lists above the sorted axis
@guard
def h_option_sort_above(pattern, parents_c, arg, lens=None):
    """IndexedOptionArray64::sort_next / argsort_next with the sorted axis strictly below the option (missing lists inside outer lists, sorted
    along the innermost axis): the content is handed exactly the valid entries, in order; what it answers (one sorted list per valid entry, a
    real ListOffsetArray64) goes back to the positions of those entries and every missing entry stays where it was - the level of the option is
    untouched"""
    pattern = tuple(map(bool, pattern))
    parents_c = list(parents_c)
    n = len(pattern)
    valid = [i for i, m_ in enumerate(pattern) if not m_]
    lens = list(lens) if lens is not None else [(2, 1, 0, 3)[k % 4] for k in range(len(valid))]
    nc = NodeCtx(['IA', 'RA', 'LOA', 'NA', 'IDX', 'CNT', 'UTL', 'KD', 'IDS'], [], unwind=max(14, 3 * n + sum(lens) + 12))
    seen = []
    # the answer of the content: a list node over a second opaque leaf
    kk = z3.BitVec('k!', 64)
    BASE = 1 << 32
    c0, l0 = nc.content0, nc.lencontent
    leaflen = nc.m.bv('lenanswerleaf')
    nc.m.assume(leaflen <= 2 ** 20)
    nc.content0 = nc.new_content_in(nc.m.mem, 'answerleaf', leaflen, z3.Lambda([kk], kk + BASE), const=True)
    nc.lencontent = leaflen
    answer, ans_lists, ans_offs = build_listoffset64(nc, lens, name='answer')
    nc.m.assume(ans_offs[0] == 0)
    ans_lists = [[Elem(z3.simplify(e.val + BASE)) for e in lst] for lst in ans_lists]
    nc.content0, nc.lencontent = c0, l0

    def s_sort_next(eng, fr, ins, st, name, argv):
        if arg:
            sret, selfp, negaxis, starts, shifts, parents_, outl, asc, stb = argv
        else:
            sret, selfp, negaxis, starts, parents_, outl, asc, stb = argv
        nm, info = nc.content_info(selfp, st, eng)
        seen.append(dict(pc=st.pc, info=info, negaxis=negaxis, parents=nc.index_terms(st.mem, parents_, 'parents')[0], outlength=outl, asc=asc, stb=stb))
        nc._ret(st, sret, answer)
        return None
    nc.m.eng.stubs['vf$slot%d' % nc.slot('12argsort_nextElRKNS_7IndexOfIlEES4_S4_lbb' if arg else '9sort_nextElRKNS_7IndexOfIlEES4_lbb')] = s_sort_next
    # harness nodes carry no parameters
    nc.m.eng.stubs['_ZNK7awkward7Content18purelist_parameterE*'] = nodeh.s_empty_string
    nc.m.eng.stubs['_ZNK7awkward17ListOffsetArrayOfIlE18purelist_parameterE*'] = nodeh.s_empty_string
    nc.m.eng.stubs.update(string_stubs(nc))
    from .mbuild import cstring_stubs
    nc.m.eng.stubs.update({k_: v_ for k_, v_ in cstring_stubs().items() if 'compare' in k_})
    # argsort asks whether the answered lists can be merged with an array of integer positions (the positions of the missing values): lists and numbers cannot
    nc.m.eng.stubs['_ZNK7awkward17ListOffsetArrayOfIlE9mergeableE*'] = lambda eng, fr, ins, st, name, argv: z3.BitVecVal(0, 1)
    # the content is a list level above the leaves: branch_depth() = (false, 2); negaxis = 1 sorts the leaves
    nc.m.eng.stubs['vf$slot%d' % nc.slot('12branch_depthEv')] = lambda eng, fr, ins, st, name, argv: [z3.BitVecVal(0, 8), BV(2)]
    this, idx = build_option64(nc, pattern)
    G = max(parents_c) + 1 if parents_c else 1
    first_of = {g: sum(1 for p in parents_c if p < g) for g in range(G)}        # groups are contiguous and in order: group g starts after all entries of the earlier groups

    def index64(name, vals):
        arr = z3.K(z3.BitVecSort(64), BV(0))
        for i, v in enumerate(vals):
            arr = z3.Store(arr, BV(i), BV(v))
        d = nc.m.array(name + '_data', ('i', 64), max(1, len(vals)), const=True, arr=arr)
        cells = {}
        nc.index_cells(cells, 0, d, BV(0), BV(len(vals)))
        return nc.m.record(name, cells, const=True)
    parents, starts, shifts = index64('parents', parents_c), index64('starts', [first_of[g] for g in range(G)]), index64('shifts', [])
    asc, stb = nc.m.bv('ascending', 1), nc.m.bv('stable', 1)
    nc.m.record('ret', {})
    what = 'argsort_next' if arg else 'sort_next'
    cands = [f for mod_ in nc.m.eng.mods for f in mod_.func_src if f.startswith('_ZNK7awkward14IndexedArrayOfIlLb1EE%s' % ('12argsort_nextE' if arg else '9sort_nextE'))]
    out = nc.m.call(cands[0], [Ptr('ret', 0), this, BV(1), starts] + ([shifts] if arg else []) + [parents, BV(G), asc, stb])
    obls = [('%s does not raise' % what, out.raised), ('the content is asked', z3.Not(z3.Or([ob['pc'] for ob in seen] + [z3.BoolVal(False)])))]
    for ob in seen:
        g, info = ob['pc'], ob['info']
        obls.append(('the content handed over holds exactly the valid entries', z3.And(g, info['length'] != len(valid))))
        for k, i in enumerate(valid):
            obls.append(('entry %d handed over is valid entry %d (position %d)' % (k, k, i), z3.And(g, z3.Select(info['atoms'], BV(k)) != idx[i])))
        obls.append(('direction, stability and negaxis are handed on unchanged', z3.And(g, z3.Or(ob['asc'] != asc, ob['stb'] != stb, ob['negaxis'] != 1))))
    want, k = [], 0
    for i in range(n):
        if pattern[i]:
            want.append(NONE)
        else:
            want.append(ans_lists[k]); k += 1
    for g, res in nodeh.decode_cases(nc, out.mem, nc.m.cell('ret', 0)):
        if res is None:
            obls.append(('a result is returned', z3.And(g, z3.Not(out.raised))))
        else:
            obls += [(nm, z3.And(g, c)) for nm, c in nodeh.compare_value(res, want)]

    def replay(model, ent):
        iv = [model.eval(x, model_completion=True).as_signed_long() for x in idx]
        lc = max([model.eval(nc.lencontent, model_completion=True).as_signed_long(), 1] + [v + 1 for v in iv])
        if lc > 40:
            return False, 'content too long to replay', {}
        a_ = z3.is_true(model.eval(asc == 1, model_completion=True))
        # content entry k: the list [(7k + 3j + 5) % 11 for j < (k % 3) + 1]
        rows = [[(7 * k_ + 3 * j + 5) % 11 for j in range(k_ % 3 + 1)] for k_ in range(lc)]
        flat = [x for r in rows for x in r]
        oo, acc = [0], 0
        for r in rows:
            acc += len(r); oo.append(acc)
        counts = [sum(1 for p in parents_c if p == gi) for gi in range(G)]
        go, acc = [0], 0
        for c in counts:
            acc += c; go.append(acc)
        entries = [None if v < 0 else rows[v] for v in iv]
        prog = 'i64 %s listoffset64 %s option64 %s listoffset64 %s %s 2 %d 1' % (fullnative.ints(flat), fullnative.ints(oo), fullnative.ints(iv), fullnative.ints(go), 'argsort' if arg else 'sort', 1 if a_ else 0)

        def one(l):
            if l is None:
                return None
            if arg:
                return sorted(range(len(l)), key=lambda j: ((l[j] if a_ else -l[j]), j))
            return sorted(l, reverse=not a_)
        exp = [[one(l) for l in entries[go[gi]:go[gi + 1]]] for gi in range(G)]
        return akrun_check(prog, exp, '%s(axis=2, ascending=%s) of outer lists %s of option-type lists %s' % ('argsort' if arg else 'sort', a_, counts, entries))
    return mdischarge(nc.m, 'IndexedOptionArray64::%s above the sorted axis pattern=%s groups=%s' % (what, ''.join('N' if p else 'v' for p in pattern), parents_c), obls, [], replay=replay,
                      prefer=[nc.lencontent <= 8],
                      extra=dict(bounds='%d entries, missing pattern, groups and answered list lengths %s concrete (case split), index values, direction and stability symbolic' % (n, lens)))


def jobs_option_sort_above(tier):
    q = [((0, 1, 0), (0, 0, 0)), ((0, 0, 1, 0, 0), (0, 0, 0, 1, 1)), ((1, 0), (0, 1))]
    if tier != 'quick':
        q += [((0, 0, 1, 0, 0), (0, 0, 0, 0, 1)), ((1, 0), (0, 0)), ((0, 0), (0, 1)), ((1, 1), (0, 1)), ((0, 1, 0, 1, 0, 0), (0, 0, 1, 1, 2, 2)), ((0,), (0,)), ((1,), (0,)), ((1, 0, 0, 1), (0, 1, 2, 2))]
    return [(h_option_sort_above, (pat, par, a), 1800) for pat, par in q for a in (False, True)]


# ------------------------------------------------------------------------------------------------ C06: argsort with missing values at the sorted level
@guard
def h_option_argsort(pattern, parents_c, rows=None, option=True):
    """IndexedOptionArray64::argsort_next at the leaf level: the content is handed exactly the valid entries, in order, each with the group of
    its position; in the answer every group keeps its number of entries: first what the content answered for that group's valid entries, then the
    positions (inside the group) of the group's missing entries, in order - missing values sort last. With `rows` (lists of 0 = value / 1 = missing)
    the node is called the way the list above it calls it for a sort across the lists (axis 0 of a jagged array): the groups are the columns and
    every entry comes with the number of rows before its own that do not reach its column; the position of a missing entry is then its row"""
    shifts_c = []
    if rows is not None:
        rows = [list(r) for r in rows]
        ncols = max([len(r) for r in rows] + [0])
        cells_ = [(c, r) for c in range(ncols) for r in range(len(rows)) if len(rows[r]) > c]
        pattern = [rows[r][c] for c, r in cells_]
        parents_c = [c for c, r in cells_]
        shifts_c = [sum(1 for r2 in range(r) if len(rows[r2]) <= c) for c, r in cells_]
    pattern = tuple(map(bool, pattern))
    parents_c = list(parents_c)
    n = len(pattern)
    nc = NodeCtx(['IA', 'RA', 'LOA', 'NA', 'IDX', 'CNT', 'UTL', 'KD', 'IDS'], [], unwind=max(14, 4 * n + 12))
    seen = []
    S = z3.Function('SORTED', z3.BitVecSort(64), z3.BitVecSort(64))
    kk = z3.BitVec('k!', 64)

    def s_argsort_next(eng, fr, ins, st, name, argv):
        sret, selfp, negaxis, starts, shifts, parents_, outl, asc, stb = argv
        nm, info = nc.content_info(selfp, st, eng)
        seen.append(dict(pc=st.pc, info=info, negaxis=negaxis, parents=nc.index_terms(st.mem, parents_, 'parents')[0], outlength=outl, asc=asc, stb=stb,
                         shifts=nc.index_terms(st.mem, shifts, 'shifts')[0]))
        nc._ret(st, sret, nc.fresh_content(eng, st, info['length'], z3.Lambda([kk], S(kk)), derived='sorted'))
        return None

    def s_mergemany(eng, fr, ins, st, name, argv):
        # the answer of the content (positions) is merged with a NumpyArray of positions: all entries of the first, then all of the second
        sret, selfp, vec = argv
        first, finfo = nc.content_info(selfp, st, eng)
        o = st.mem.o[vec.obj]
        b, e = o.cells[vec.off][0], o.cells[vec.off + 8][0]
        qb = [q for g, q in nodeh.ptr_cases(b) if q.obj is not None][0]
        qe = [q for g, q in nodeh.ptr_cases(e) if q.obj is not None][0]
        buf = st.mem.o[qb.obj]
        nbytes = nodeh.concrete(qe.off - qb.off if not isinstance(qe.off, int) else BV(qe.off - qb.off), 'size of the vector of contents to merge')
        if nbytes != 16 or not isinstance(buf, nodeh.RecObj):
            raise Unsupported('merge with %d bytes of operands' % nbytes)
        other = nodeh.decode(nc, st.mem, buf.cells[qb.off][0])
        if other['cls'] != 'numpy':
            raise Unsupported('merge operand %s' % other['cls'])
        total = finfo['length'] + len(other['values'])
        body = BV(-7)
        for j, v in enumerate(other['values']):
            body = z3.If(kk == finfo['length'] + j, v, body)
        body = z3.If(kk < finfo['length'], z3.Select(finfo['atoms'], kk), body)
        nc._ret(st, sret, nc.fresh_content(eng, st, z3.simplify(total), z3.Lambda([kk], body), derived='merged'))
        return None
    nc.m.eng.stubs['vf$slot%d' % nc.slot('12argsort_nextElRKNS_7IndexOfIlEES4_S4_lbb')] = s_argsort_next
    nc.m.eng.stubs['vf$slot%d' % nc.slot('9mergemanyERKSt6vector')] = s_mergemany
    nc.m.eng.stubs['vf$slot%d' % nc.slot('9mergeableERKSt10shared_ptrINS_7ContentEEb')] = lambda eng, fr, ins, st, name, argv: z3.BitVecVal(1, 1)
    nc.m.eng.stubs['vf$slot%d' % nc.slot('12branch_depthEv')] = lambda eng, fr, ins, st, name, argv: [z3.BitVecVal(0, 8), BV(1)]
    this, idx = build_option64(nc, pattern, option=option)
    G = max(parents_c) + 1 if parents_c else 1
    first_of = {g: sum(1 for p in parents_c if p < g) for g in range(G)}        # groups are contiguous and in order: group g starts after all entries of the earlier groups

    def index64(name, vals):
        arr = z3.K(z3.BitVecSort(64), BV(0))
        for i, v in enumerate(vals):
            arr = z3.Store(arr, BV(i), BV(v))
        d = nc.m.array(name + '_data', ('i', 64), max(1, len(vals)), const=True, arr=arr)
        cells = {}
        nc.index_cells(cells, 0, d, BV(0), BV(len(vals)))
        return nc.m.record(name, cells, const=True)
    parents, starts, shifts = index64('parents', parents_c), index64('starts', [first_of[g] for g in range(G)]), index64('shifts', shifts_c)
    asc, stb = nc.m.bv('ascending', 1), nc.m.bv('stable', 1)
    nc.m.record('ret', {})
    cands = [f for mod_ in nc.m.eng.mods for f in mod_.func_src if f.startswith('_ZNK7awkward14IndexedArrayOfIlLb%dEE12argsort_nextE' % (1 if option else 0))]
    out = nc.m.call(cands[0], [Ptr('ret', 0), this, BV(1), starts, shifts, parents, BV(G), asc, stb])
    obls = [('argsort_next does not raise', out.raised), ('the content is asked', z3.Not(z3.Or([ob['pc'] for ob in seen] + [z3.BoolVal(False)])))]
    valid = [i for i, m_ in enumerate(pattern) if not m_]
    for ob in seen:
        g, info = ob['pc'], ob['info']
        obls.append(('the content handed over holds exactly the valid entries', z3.And(g, info['length'] != len(valid))))
        for k, i in enumerate(valid):
            obls.append(('entry %d handed over is valid entry %d (position %d)' % (k, k, i), z3.And(g, z3.Select(info['atoms'], BV(k)) != idx[i])))
        if len(ob['parents']) != len(valid):
            obls.append(('one group per valid entry', g))
        else:
            for k, i in enumerate(valid):
                obls.append(('group of valid entry %d is the group of its position' % k, z3.And(g, ob['parents'][k] != parents_c[i])))
        obls.append(('direction, stability, negaxis and the number of groups are handed on unchanged', z3.And(g, z3.Or(ob['asc'] != asc, ob['stb'] != stb, ob['negaxis'] != 1, ob['outlength'] != G))))
        if option or shifts_c:
            if len(ob['shifts']) != len(valid):
                obls.append(('one shift per valid entry', g))
            else:
                for k, i in enumerate(valid):
                    ws = sum(1 for j in range(i) if pattern[j]) + (shifts_c[i] if shifts_c else 0)
                    obls.append(('shift of valid entry %d counts the missing entries before it%s' % (k, ' on top of the shift that came in with it' if shifts_c else ''), z3.And(g, ob['shifts'][k] != ws)))
    want = []
    for gi in range(G):
        members = [i for i, p in enumerate(parents_c) if p == gi]
        ks = [k for k, i in enumerate(valid) if parents_c[i] == gi]
        nulls = [r + (shifts_c[i] if shifts_c else 0) for r, i in enumerate(members) if pattern[i]]
        want += [Elem(S(BV(k))) for k in ks] + [Elem(BV(r)) for r in nulls]
    for g, res in nodeh.decode_cases(nc, out.mem, nc.m.cell('ret', 0)):
        if res is None:
            obls.append(('a result is returned', z3.And(g, z3.Not(out.raised))))
        else:
            obls += [(nm, z3.And(g, c)) for nm, c in nodeh.compare_value(res, want)]

    def replay(model, ent):
        iv = [model.eval(x, model_completion=True).as_signed_long() for x in idx]
        lc = max([model.eval(nc.lencontent, model_completion=True).as_signed_long(), 1] + [v + 1 for v in iv])
        if lc > 60:
            return False, 'content too long to replay', {}
        a_ = z3.is_true(model.eval(asc == 1, model_completion=True))
        vals = [7 * v % 11 for v in range(lc)]
        counts = [sum(1 for p in parents_c if p == gi) for gi in range(G)]
        oo, acc = [0], 0
        for c in counts:
            acc += c; oo.append(acc)
        entries = [None if v < 0 else vals[v] for v in iv]
        if rows is not None:
            # back to the jagged array itself: entry k of the node is cell (column, row) k, column by column
            at = {(r, c): entries[k] for k, (c, r) in enumerate(cells_)}
            pos = {(r, c): k for k, (c, r) in enumerate(cells_)}
            flat = [(r, c) for r in range(len(rows)) for c in range(len(rows[r]))]
            roff = [0]
            for r_ in rows:
                roff.append(roff[-1] + len(r_))
            prog = 'i64 %s %s %s listoffset64 %s argsort 0 %d 1' % (fullnative.ints(vals), 'option64' if option else 'indexed64', fullnative.ints([iv[pos[rc]] for rc in flat]), fullnative.ints(roff), 1 if a_ else 0)
            col = {}
            for c in range(ncols):
                have = [r for r in range(len(rows)) if len(rows[r]) > c]
                pres = sorted([r for r in have if at[(r, c)] is not None], key=lambda r: ((at[(r, c)] if a_ else -at[(r, c)]), r))
                col[c] = dict(zip(have, pres + [r for r in have if at[(r, c)] is None]))
            exp = [[col[c][r] for c in range(len(rows[r]))] for r in range(len(rows))]
            return akrun_check(prog, exp, 'argsort(axis=0, ascending=%s, stable) of the lists %s' % (a_, [[at[(r, c)] for c in range(len(rows[r]))] for r in range(len(rows))]))
        prog = 'i64 %s %s %s listoffset64 %s argsort 1 %d 1' % (fullnative.ints(vals), 'option64' if option else 'indexed64', fullnative.ints(iv), fullnative.ints(oo), 1 if a_ else 0)
        exp = []
        for gi in range(G):
            grp = entries[oo[gi]:oo[gi + 1]]
            pres = sorted([j for j in range(len(grp)) if grp[j] is not None], key=lambda j: ((grp[j] if a_ else -grp[j]), j))
            exp.append(pres + [j for j in range(len(grp)) if grp[j] is None])
        return akrun_check(prog, exp, 'argsort(axis=1, ascending=%s, stable) of lists %s of option-type numbers %s' % (a_, counts, entries))
    return mdischarge(nc.m, '%s::argsort_next pattern=%s groups=%s%s' % ('IndexedOptionArray64' if option else 'IndexedArray64', ''.join('N' if p else 'v' for p in pattern), parents_c, ' shifts=%s' % shifts_c if shifts_c else ''), obls, [], replay=replay, prefer=[nc.lencontent <= 8],
                      extra=dict(bounds='%d entries, missing pattern and groups concrete (case split), index values, direction and stability symbolic' % n))


def jobs_option_argsort(tier):
    q = [((0, 1, 0), (0, 0, 0)), ((1, 0, 0, 1), (0, 0, 1, 1)), ((1, 1), (0, 0)), ((0, 0), (0, 1))]
    if tier != 'quick':
        q += [((0, 1, 1, 0, 1), (0, 0, 1, 1, 1)), ((1,), (0,)), ((0, 1, 0, 1), (0, 1, 1, 2)), ((0, 0, 0), (0, 0, 0)), ((1, 1, 0), (0, 1, 1)), ((1, 0, 1), (0, 2, 2))]
    rows = [([[0, 0, 1], [], [0, 0], [0, 1, 0]],), ([[1], [], [0]],), ([[0], [], [0, 0]],)]         # the last: an option node with nothing missing still hands the shifts on
    if tier != 'quick':
        rows += [([[0, 1], [0], [1, 0], [], [0, 1]],), ([[], [1, 0], [0, 1]],), ([[0, 0], [1, 1]],)]
    plain = [((0, 0, 0), (0, 0, 1), None, False), ((), (), [[], [0, 0], [0]], False)]
    if tier != 'quick':
        plain += [((), (), [[0], [], [0, 0], [0]], False), ((0, 0), (0, 0), None, False)]
    return [(h_option_argsort, a, 1800) for a in q] + [(h_option_argsort, ((), (), r[0]), 1800) for r in rows] + [(h_option_argsort, a, 1800) for a in plain]


# ------------------------------------------------------------------------------------------------ C06: argsort of strings with missing values taken out
@guard
def h_string_argsort(pattern, parents_c):
    """ListOffsetArray64::argsort_next on a list of strings (the branch taken for __array__ = "string"), called the way an option node above it
    calls it: with only the valid strings, their groups, and for each of them the number of missing values before it (shifts).  Whatever order the
    string kernel answers (stubbed: arbitrary positions inside each group), the positions returned count the missing values too: position p of
    group g in the valid-only numbering becomes p + (missing values before that string) - (start of the group) in the full numbering"""
    pattern = tuple(map(bool, pattern))
    parents_c = list(parents_c)
    n = len(pattern)
    valid = [i for i, m_ in enumerate(pattern) if not m_]
    nv = len(valid)
    G = max(parents_c) + 1 if parents_c else 1
    nextparents = [parents_c[i] for i in valid]
    shifts_c = [sum(1 for j in range(i) if pattern[j]) for i in valid]
    starts_c = [sum(1 for p in parents_c if p < g) for g in range(G)]
    vstart = [sum(1 for p in nextparents if p < g) for g in range(G)]
    vsize = [sum(1 for p in nextparents if p == g) for g in range(G)]
    nc = NodeCtx(['LOA', 'NA', 'RA', 'IDX', 'CNT', 'UTL', 'KD', 'IDS'], [], unwind=max(14, 4 * n + 12))
    chars, xs, fo_ = build_numpy1d(nc, 'chars', nv, 'uint8')
    nc.content0, nc.lencontent = chars, BV(nv)
    this, lists, offs = build_listoffset64(nc, [1] * nv)
    P = [nc.m.bv('answer%d' % k) for k in range(nv)]
    for k in range(nv):
        nc.m.assume(P[k] >= 0, P[k] < vsize[nextparents[k]])
    seen = []

    def s_kernel(eng, fr, ins, st, name, argv):
        if len(argv) != 10:
            raise Unsupported('argsort_strings called with %d arguments' % len(argv))
        sret, tocarry, parents_, length, data, sstarts, sstops, stable_, asc_, local_ = argv
        seen.append(dict(pc=st.pc, length=length, local=local_, asc=asc_, stable=stable_))
        rec = st.mem.o[sret.obj]
        for off, (v, w) in {0: (NULL, 8), 8: (NULL, 8), 16: (BV(2 ** 63 - 1), 8), 24: (BV(2 ** 63 - 1), 8), 32: (BV(0, 8), 1)}.items():
            rec.cells[sret.off + off] = (v, w)
        for k in range(nv):
            eng.store(st, Ptr(tocarry.obj, tocarry.off + k), P[k], 'i64', fr.mod, 'stub of awkward_ListOffsetArray_argsort_strings')
        return None
    nc.m.eng.stubs['awkward_ListOffsetArray_argsort_strings'] = s_kernel
    # the node is a list of strings: parameter_equals("__array__", "\"string\"") holds, and it is valid
    nc.m.eng.stubs['_ZNK7awkward7Content16parameter_equalsERKNSt7__cxx1112basic_stringIcSt11char_traitsIcESaIcEEES8_'] = lambda eng, fr, ins, st, name, argv: z3.BitVecVal(1, 1)
    nc.m.eng.stubs['_ZNK7awkward17ListOffsetArrayOfIlE13validityerrorE*'] = nodeh.s_empty_string
    nc.m.eng.stubs['vf$slot%d' % nc.slot('12branch_depthEv')] = lambda eng, fr, ins, st, name, argv: [z3.BitVecVal(0, 8), BV(1)]
    nc.m.eng.stubs.update(string_stubs(nc))

    def index64(name, vals):
        arr = z3.K(z3.BitVecSort(64), BV(0))
        for i, v in enumerate(vals):
            arr = z3.Store(arr, BV(i), BV(v))
        d = nc.m.array(name + '_data', ('i', 64), max(1, len(vals)), const=True, arr=arr)
        cells = {}
        nc.index_cells(cells, 0, d, BV(0), BV(len(vals)))
        return nc.m.record(name, cells, const=True)
    parents, starts, shifts = index64('parents', nextparents), index64('starts', starts_c), index64('shifts', shifts_c)
    asc, stb = nc.m.bv('ascending', 1), nc.m.bv('stable', 1)
    nc.m.record('ret', {})
    cands = [f for mod_ in nc.m.eng.mods for f in mod_.func_src if f.startswith('_ZNK7awkward17ListOffsetArrayOfIlE12argsort_nextEl')]
    out = nc.m.call(cands[0], [Ptr('ret', 0), this, BV(1), starts, shifts, parents, BV(G), asc, stb])
    obls = [('argsort_next does not raise', out.raised)] + ([('the string kernel is asked', z3.Not(z3.Or([ob['pc'] for ob in seen] + [z3.BoolVal(False)])))] if nv else [])
    for ob in seen:
        loc = ob['local'] if ob['local'].size() == 1 else z3.Extract(0, 0, ob['local'])
        obls.append(('the kernel is asked for positions inside each group, for every valid string', z3.And(ob['pc'], z3.Or(loc != 1, ob['length'] != nv))))

    def sel(vals, i):
        t = BV(-99)
        for j, v in enumerate(vals):
            t = z3.If(i == j, BV(v), t)
        return t
    want = []
    for k in range(nv):
        g = nextparents[k]
        gpos = P[k] + vstart[g]
        want.append(Elem(z3.simplify(gpos + sel(shifts_c, gpos) - starts_c[g])))
    for g, res in nodeh.decode_cases(nc, out.mem, nc.m.cell('ret', 0)):
        if res is None:
            obls.append(('a result is returned', z3.And(g, z3.Not(out.raised))))
        else:
            # also without any string: the caller merges the answer with the positions of the missing values, which needs an array of positions
            obls.append(('the answer is a one-dimensional array of positions', z3.And(g, z3.BoolVal(res['cls'] != 'numpy'))))
            obls += [(nm, z3.And(g, c)) for nm, c in nodeh.compare_value(res, want)]

    def replay(model, ent):
        # strings 'a', 'b', ... in decreasing order inside every group (so that the sorted order differs from the input order), None where the pattern says
        counts = [sum(1 for p in parents_c if p == gi) for gi in range(G)]
        oo, acc = [0], 0
        for c in counts:
            acc += c; oo.append(acc)
        words = [chr(ord('z') - k) * (1 + k % 2) for k in range(nv)]
        idx, k = [], 0
        for i in range(n):
            if pattern[i]:
                idx.append(-1)
            else:
                idx.append(k); k += 1
        b = [ord(c) for w in words for c in w]
        wo = [0]
        for w in words:
            wo.append(wo[-1] + len(w))
        entries = [None if v < 0 else words[v] for v in idx]
        prog = 'u8 %s param __array__ "char" listoffset64 %s param __array__ "string" option64 %s listoffset64 %s argsort 1 1 1' % (fullnative.ints(b), fullnative.ints(wo), fullnative.ints(idx), fullnative.ints(oo))
        exp = []
        for gi in range(G):
            grp = entries[oo[gi]:oo[gi + 1]]
            pres = sorted([j for j in range(len(grp)) if grp[j] is not None], key=lambda j: (grp[j].encode(), j))
            exp.append(pres + [j for j in range(len(grp)) if grp[j] is None])
        return akrun_check(prog, exp, 'argsort(axis=1) of lists %s of option-type strings %s' % (counts, entries))
    return mdischarge(nc.m, 'ListOffsetArray64(string)::argsort_next with shifts pattern=%s groups=%s' % (''.join('N' if p else 'v' for p in pattern), parents_c), obls,
                      [('a string with a missing value before it', z3.BoolVal(any(shifts_c)))] if any(shifts_c) else [], replay=replay,
                      extra=dict(bounds='%d entries (%d valid strings), missing pattern and groups concrete (case split); the answer of the string kernel symbolic; string kernel and parameter lookup stubbed' % (n, nv)))


def jobs_string_argsort(tier):
    q = [((0, 1, 0), (0, 0, 0)), ((1, 0, 0, 1, 0), (0, 0, 1, 1, 1))]
    if tier != 'quick':
        q += [((0, 0), (0, 1)), ((1, 0), (0, 0)), ((0, 1, 1, 0, 0), (0, 0, 0, 0, 1)), ((1, 0, 1, 0), (0, 1, 2, 2)), ((0, 0, 0), (0, 0, 0)), ((1,), (0,))]
    q += [((1, 1), (0, 0))]
    return [(h_string_argsort, a, 1800) for a in q]


# ------------------------------------------------------------------------------------------------ C02 / C04: an n-dimensional NumpyArray as nested regular lists
def build_numpynd(nc, name, shape, dtype='int64', view=False):
    """n-dimensional NumpyArray over a symbolic buffer -> (this, element terms in row-major order of the array).  view: the array is x[..., 1:]
    of a buffer whose last dimension is one longer (not contiguous, byte offset of one item)"""
    from .cpp01 import struct_of
    code, kind, isz, fmt, sgn = NP_DTYPES[dtype]
    mod = module_of(SRC['NA'])
    fo, sz, al, fields = mod.types.struct_layout(struct_of(mod, '_ZNK7awkward10NumpyArray6lengthEv'))
    nd = len(shape)
    bshape = list(shape[:-1]) + [shape[-1] + 1] if view else list(shape)
    total = 1
    for x in bshape:
        total *= x
    data = nc.m.array(name + '_data', kind, max(1, total), const=True)
    a0 = z3.Array(name + '_data', z3.BitVecSort(64), z3.BitVecSort(kind[1]))
    strides, acc = [0] * nd, isz
    for i in reversed(range(nd)):
        strides[i] = acc
        acc *= bshape[i]
    nc.m.record(name + '_shape', {8 * i: (BV(x), 8) for i, x in enumerate(shape)}, const=True)
    nc.m.record(name + '_strides', {8 * i: (BV(x), 8) for i, x in enumerate(strides)}, const=True)
    cells = nc.content_header(name, nc.vptr_of('N7awkward10NumpyArrayE', 'NA'))
    cells.update({fo[1]: (data, 8), fo[1] + 8: (NULL, 8), fo[2]: (BV(0, 32), 4),
                  fo[4]: (Ptr(name + '_shape', 0), 8), fo[4] + 8: (Ptr(name + '_shape', 8 * nd), 8), fo[4] + 16: (Ptr(name + '_shape', 8 * nd), 8),
                  fo[5]: (Ptr(name + '_strides', 0), 8), fo[5] + 8: (Ptr(name + '_strides', 8 * nd), 8), fo[5] + 16: (Ptr(name + '_strides', 8 * nd), 8),
                  fo[6]: (BV(isz if view else 0), 8), fo[7]: (BV(isz), 8),
                  fo[8]: (Ptr(name, fo[8] + 16), 8), fo[8] + 8: (BV(1), 8), fo[8] + 16: (BV(ord(fmt), 8), 1), fo[8] + 17: (BV(0, 8), 1),
                  fo[9]: (BV(code, 32), 4)})
    this = nc.m.record(name, cells, const=True)
    elems = []
    for pos in itertools.product(*[range(x) for x in shape]):
        off = (isz if view else 0) + sum(p_ * st_ for p_, st_ in zip(pos, strides))
        elems.append(z3.Select(a0, BV(off // isz)))
    return this, elems


@guard
def h_numpy_toregular(shape, view=False):
    """NumpyArray::toRegularArray of an n-dimensional array (contiguous, or the view x[..., 1:] of a wider buffer, which is copied first): nested
    regular lists of exactly the same shape - every dimension keeps its length, also around a dimension of size zero - over the same values in
    row-major order"""
    shape = tuple(shape)
    total = 1
    for x in shape:
        total *= x
    nc = NodeCtx(['NA', 'RA', 'IDX', 'CNT', 'UTL', 'KD', 'IDS'], [], unwind=max(12, 2 * len(shape) + 2 * total + 10))
    nc.m.eng.stubs.update(string_stubs(nc))
    this, xs = build_numpynd(nc, 'arr', shape, view=view)
    nc.m.record('ret', {})
    out = nc.m.call('_ZNK7awkward10NumpyArray14toRegularArrayEv', [Ptr('ret', 0), this])
    obls = [('toRegularArray does not raise', out.raised)]

    def nest(d, base):
        if d == len(shape) - 1:
            return [Elem(xs[base + i]) for i in range(shape[d])]
        step = 1
        for x in shape[d + 1:]:
            step *= x
        return [nest(d + 1, base + i * step) for i in range(shape[d])]
    want = nest(0, 0)
    for g, res in nodeh.decode_cases(nc, out.mem, nc.m.cell('ret', 0)):
        if res is None:
            obls.append(('a result is returned', z3.And(g, z3.Not(out.raised))))
        else:
            d_, depth = res, 0
            while d_['cls'] == 'regular':
                d_, depth = d_['content'], depth + 1
            obls.append(('one regular level per dimension after the first', z3.And(g, z3.BoolVal(depth != len(shape) - 1))))
            obls += [(nm, z3.And(g, c)) for nm, c in nodeh.compare_value(res, want)]

    def replay(model, ent):
        import numpy as np
        if view:
            bshape = shape[:-1] + (shape[-1] + 1,)
            btotal = total // max(shape[-1], 1) * bshape[-1] if shape[-1] else int(np.prod(bshape))
            a = np.arange(btotal).reshape(bshape)
            prog = 'i64nd %d %s %s getitem 2 ellipsis range 1 NONE 1 toregular' % (len(bshape), ' '.join(map(str, bshape)), ' '.join(map(str, range(btotal))))
            return akrun_check(prog, a[..., 1:].tolist(), 'the view x[..., 1:] of a NumpyArray of shape %s as nested regular lists' % (bshape,))
        prog = 'i64nd %d %s %s toregular' % (len(shape), ' '.join(map(str, shape)), ' '.join(map(str, range(total))))
        return akrun_check(prog, np.arange(total).reshape(shape).tolist(), 'NumpyArray of shape %s as nested regular lists' % (shape,))
    return mdischarge(nc.m, 'NumpyArray::toRegularArray shape=%s%s' % (','.join(map(str, shape)), ' (view)' if view else ''), obls, [], replay=replay,
                      extra=dict(bounds='shape %s concrete (case split), int64 values symbolic, %s' % (shape, 'a non-contiguous view with a byte offset' if view else 'contiguous')))


def jobs_numpy_toregular(tier):
    q = [(3,), (2, 3), (2, 3, 0), (2, 0, 3), (2, 1, 2)]
    if tier != 'quick':
        q += [(0,), (0, 2), (2, 0), (0, 2, 3), (2, 2, 3, 0), (3, 2, 0, 2), (1, 1, 1), (2, 2, 2), (3, 1, 0)]
    return [(h_numpy_toregular, (s_,), 1800) for s_ in q] + [(h_numpy_toregular, (s_, True), 1800) for s_ in ([(2, 2)] if tier == 'quick' else [(2, 2), (2, 1), (1, 2, 2), (3,)])]


@guard
def h_axis_through_union(meth):
    """num / localindex(axis=-1) of a list of union-type entries whose two contents differ in depth (lists of numbers, lists of lists of
    numbers): a negative axis counts from the leaves of *each* branch, so the answer addresses the innermost lists of either content - for the
    first content these are its own lists, for the second the request goes one level further down"""
    nc = NodeCtx(['LOA', 'UNI', 'NA', 'IA', 'RA', 'IDX', 'CNT', 'UTL', 'KD', 'IDS'], [], unwind=24)
    frag = {'num': '3numEll', 'localindex': '10localindexEll'}[meth]
    F = nc.derived_stub(frag, meth)
    kk = z3.BitVec('k!', 64)
    BASE = 1 << 32
    leafA, lenA = nc.content0, nc.lencontent
    lenB = nc.m.bv('lenleafB')
    nc.m.assume(lenB <= 2 ** 20)
    leafB = nc.new_content_in(nc.m.mem, 'leafB', lenB, z3.Lambda([kk], kk + BASE), const=True)

    nc.m.eng.stubs.update(string_stubs(nc))
    # num answers a union of counts (numbers) and lists of counts: simplify_uniontype asks whether they merge - numbers and lists do not
    nc.m.eng.stubs['_ZNK7awkward10NumpyArray9mergeableE*'] = lambda eng, fr, ins, st, name, argv: z3.BitVecVal(0, 1)
    nc.m.eng.stubs['_ZNK7awkward17ListOffsetArrayOfIlE9mergeableE*'] = lambda eng, fr, ins, st, name, argv: z3.BitVecVal(0, 1)

    def depth_of(selfp, st, eng):        # leaf A holds numbers (depth 1), leaf B holds lists of numbers (depth 2)
        return 2 if nc.content_info(selfp, st, eng)[0] == 'leafB' else 1
    nc.m.eng.stubs['vf$slot%d' % nc.slot('14purelist_depthEv')] = lambda eng, fr, ins, st, name, argv: BV(depth_of(argv[0], st, eng))
    nc.m.eng.stubs['vf$slot%d' % nc.slot('12minmax_depthEv')] = lambda eng, fr, ins, st, name, argv: [BV(depth_of(argv[0], st, eng))] * 2
    nc.m.eng.stubs['vf$slot%d' % nc.slot('12branch_depthEv')] = lambda eng, fr, ins, st, name, argv: [z3.BitVecVal(0, 8), BV(depth_of(argv[0], st, eng))]
    listA, listsA, offsA = build_listoffset64(nc, [2, 1], name='listA')
    nc.content0, nc.lencontent = leafB, lenB
    listB, listsB, offsB = build_listoffset64(nc, [2], name='listB')
    listsB = [[Elem(z3.simplify(e.val + BASE)) for e in lst] for lst in listsB]
    tags_c, index_c = (0, 1, 0), (0, 0, 1)
    union, idx = build_union8_64(nc, tags_c, [listA, listB], 'uni', [BV(2), BV(1)])
    for t, v in zip(idx, index_c):
        nc.m.assume(t == v)
    nc.content0, nc.lencontent = union, BV(3)
    this, lists_out, offs_out = build_listoffset64(nc, [2, 1], name='node')
    nc.content0, nc.lencontent = leafA, lenA
    nc.m.record('ret', {})
    out = nc.m.call('_ZNK7awkward17ListOffsetArrayOfIlE' + frag, [Ptr('ret', 0), this, BV(-1), BV(0)])
    obls = [('%s(axis=-1) does not raise' % meth, out.raised)]
    calls = [(pc, a) for pc, nm, a in out.trace if nm == meth]
    obls.append(('the deeper content is asked one level further down', z3.Not(z3.Or([pc for pc, _ in calls] + [z3.BoolVal(False)]))))

    def per_list(lst):
        return Elem(BV(len(lst))) if meth == 'num' else [Elem(BV(j)) for j in range(len(lst))]
    entryB = [Elem(F(e.val - BASE + BASE)) for e in listsB[0]]
    entries = [per_list(listsA[0]), entryB, per_list(listsA[1])]
    want = [entries[:2], entries[2:]]
    for g, res in nodeh.decode_cases(nc, out.mem, nc.m.cell('ret', 0)):
        if res is None:
            obls.append(('a result is returned', z3.And(g, z3.Not(out.raised))))
        else:
            obls += [(nm, z3.And(g, c)) for nm, c in nodeh.compare_value(res, want)]

    def replay(model, ent):
        # A = [[1, 2], [3]]; B = [[[4, 5], [6]]]; union entries A[0], B[0], A[1]; outer lists of 2 and 1 entries
        prog = ('i64 3 1 2 3 listoffset64 3 0 2 3 i64 3 4 5 6 listoffset64 3 0 2 3 listoffset64 2 0 2 '
                'union8_64 3 0 1 0 0 0 1 2 listoffset64 3 0 2 3 %s -1' % meth)
        exp = [[2, [2, 1]], [1]] if meth == 'num' else [[[0, 1], [[0, 1], [0]]], [[0]]]
        return akrun_check(prog, exp, '%s(axis=-1) of [[[1, 2], [[4, 5], [6]]], [[3]]] (union of lists and lists of lists)' % meth)
    return mdischarge(nc.m, 'list[union[list, list[list]]]::%s axis=-1' % meth, obls, [], replay=replay, prefer=[lenA <= 8, lenB <= 8],
                      extra=dict(bounds='one fixed shape: outer lists (2, 1), union tags (0, 1, 0), contents with lists (2, 1) and (2,); origins and leaf lengths symbolic'))


# ------------------------------------------------------------------------------------------------ C05 / C11: flatten through a union of lists
@guard
def h_union_flatten():
    """UnionArray8_64::offsets_and_flattened(axis=1) of a union of two list contents, one of which holds union-type elements itself: the lists
    shown by the union are concatenated in the order of the union's entries (offsets one per entry), every element keeps its identity - and the
    flattened content is a valid array: no union directly inside a union"""
    nc = NodeCtx(['UNI', 'LOA', 'IA', 'IDX', 'CNT', 'UTL', 'KD', 'IDS', 'EA'], [], unwind=30)
    BASE = 1 << 32
    kk = z3.BitVec('k!', 64)
    lenA, lenB, lenC = nc.lencontent, nc.m.bv('lencontentB'), nc.m.bv('lencontentC')
    pA = nc.content0
    nc.m.assume(lenA >= 2, lenA <= 2 ** 20, lenB >= 1, lenB <= 2 ** 20, lenC >= 1, lenC <= 2 ** 20)
    pB = nc.new_content_in(nc.m.mem, 'content_B', lenB, z3.Lambda([kk], kk + BASE), const=True)
    pC = nc.new_content_in(nc.m.mem, 'content_C', lenC, z3.Lambda([kk], kk + 2 * BASE), const=True)
    # three unrelated element types: nothing merges
    nc.m.eng.stubs['vf$slot%d' % nc.slot('9mergeableERKSt10shared_ptr')] = lambda eng, fr, ins, st, name, argv: z3.BitVecVal(0, 1)
    nc.m.eng.stubs['vf$slot%d' % nc.slot('14purelist_depthEv')] = lambda eng, fr, ins, st, name, argv: BV(1)
    nc.m.eng.stubs['vf$slot%d' % nc.slot('12minmax_depthEv')] = lambda eng, fr, ins, st, name, argv: [BV(1), BV(1)]
    nc.m.eng.stubs['vf$slot%d' % nc.slot('12branch_depthEv')] = lambda eng, fr, ins, st, name, argv: [z3.BitVecVal(0, 8), BV(1)]
    nc.m.eng.stubs.update(string_stubs(nc))
    inner, iidx = build_union8_64(nc, (0, 1, 0), [pA, pB], 'inner', [lenA, lenB])
    for t, v in zip(iidx, (0, 0, 1)):
        nc.m.assume(t == v)
    nc.content0, nc.lencontent = inner, BV(3)
    l1, lists1, offs1 = build_listoffset64(nc, [2, 1], name='list1')
    nc.content0, nc.lencontent = pC, lenC
    l2, lists2, offs2 = build_listoffset64(nc, [1], name='list2')
    nc.content0, nc.lencontent = pA, lenA
    outer, oidx = build_union8_64(nc, (0, 1, 0), [l1, l2], 'node', [BV(2), BV(1)])
    for t, v in zip(oidx, (0, 0, 1)):
        nc.m.assume(t == v)
    nc.m.record('ret', {})
    out = nc.m.call('_ZNK7awkward12UnionArrayOfIalE21offsets_and_flattenedEll', [Ptr('ret', 0), outer, BV(1), BV(0)])
    obls = [('offsets_and_flattened does not raise', out.raised)]
    offs, _ = nc.index_terms(out.mem, Ptr('ret', 0), 'returned offsets')
    want_offs = [0, 2, 3, 4]
    if len(offs) != 4:
        obls.append(('one offset per entry of the union (and one more)', z3.BoolVal(True)))
    else:
        for i, (a, w) in enumerate(zip(offs, want_offs)):
            obls.append(('offsets[%d] = number of elements of the lists before entry %d' % (i, i), a != w))
    c_elem = lists2[0][0].val + 2 * BASE
    want = [Elem(BV(0)), Elem(BV(0) + BASE), Elem(c_elem), Elem(BV(1))]
    for g, res in nodeh.decode_cases(nc, out.mem, nc.m.cell('ret', 56)):
        if res is None:
            obls.append(('a result is returned', z3.And(g, z3.Not(out.raised))))
        else:
            obls += [(nm, z3.And(g, c)) for nm, c in nodeh.compare_value(res, want, strict=True)]

    def replay(model, ent):
        # A = [1, 2] (integers), B = [true] (booleans do not merge with integers here), C = lists: [[7]] ; inner = [1, true, 2]
        prog = ('i64 2 1 2 bool 1 1 union8_64 3 0 1 0 0 0 1 2 listoffset64 3 0 2 3 '
                'i64 1 7 listoffset64 2 0 1 listoffset64 2 0 1 union8_64 3 0 1 0 0 0 1 2 flatten 1')
        got = fullnative.akrun(prog + ' validity')
        if got != ('OK', ''):
            return True, 'flatten(axis=1) of a union of [[1, true], [2]] and [[[7]]]: the answer is not a valid array: %s' % str(got)[:300], dict(program=prog)
        return akrun_check(prog, [1, True, [7], 2], 'flatten(axis=1) of a union of lists [[1, true], [2]] (union-type elements) and [[[7]]]')
    return mdischarge(nc.m, 'UnionArray8_64::offsets_and_flattened over a list of union-type elements', obls, [], replay=replay, prefer=[lenA <= 8, lenB <= 8, lenC <= 8],
                      extra=dict(bounds='one fixed shape: union entries (list1[0], list2[0], list1[1]); list1 = lists (2, 1) over a union of two opaque contents; list2 = one list over a third; origins and content lengths symbolic'))


@guard
def h_union_flatten_mixed(deep_first):
    """UnionArray8_64::offsets_and_flattened(axis=-1) of a union whose contents differ in depth (lists of numbers / lists of lists of numbers; the
    deeper content first or second in the union): a negative axis counts from the leaves of each branch, so an entry of the shallow content
    dissolves into its numbers while an entry of the deep content stays one entry whose inner lists are merged.  Offsets: one per entry of the
    union, counting what each entry contributes"""
    nc = NodeCtx(['UNI', 'LOA', 'IA', 'IDX', 'CNT', 'UTL', 'KD', 'IDS', 'EA', 'NA'], [], unwind=30)
    BASE = 1 << 32
    kk = z3.BitVec('k!', 64)
    lenA, lenB = nc.lencontent, nc.m.bv('lencontentB')
    pA = nc.content0
    nc.m.assume(lenA <= 2 ** 20, lenB <= 2 ** 20)
    pB = nc.new_content_in(nc.m.mem, 'content_B', lenB, z3.Lambda([kk], kk + BASE), const=True)
    nc.m.eng.stubs['vf$slot%d' % nc.slot('9mergeableERKSt10shared_ptr')] = lambda eng, fr, ins, st, name, argv: z3.BitVecVal(0, 1)
    nc.m.eng.stubs['_ZNK7awkward17ListOffsetArrayOfIlE9mergeableE*'] = lambda eng, fr, ins, st, name, argv: z3.BitVecVal(0, 1)
    nc.m.eng.stubs['vf$slot%d' % nc.slot('14purelist_depthEv')] = lambda eng, fr, ins, st, name, argv: BV(1)
    nc.m.eng.stubs['vf$slot%d' % nc.slot('12minmax_depthEv')] = lambda eng, fr, ins, st, name, argv: [BV(1), BV(1)]
    nc.m.eng.stubs['vf$slot%d' % nc.slot('12branch_depthEv')] = lambda eng, fr, ins, st, name, argv: [z3.BitVecVal(0, 8), BV(1)]
    nc.m.eng.stubs.update(string_stubs(nc))

    def s_identities(eng, fr, ins, st, name, argv):        # the opaque contents carry no identities
        rec = st.mem.o[argv[0].obj]
        rec.cells[argv[0].off] = (NULL, 8); rec.cells[argv[0].off + 8] = (NULL, 8)
        return None
    nc.m.eng.stubs['vf$slot%d' % nc.slot('7Content10identitiesEv')] = s_identities
    shallow, listsS, offsS = build_listoffset64(nc, [2, 1], name='shallow')               # [[a0, a1], [a2]]
    nc.content0, nc.lencontent = pB, lenB
    inner, listsI, offsI = build_listoffset64(nc, [2, 1], name='inner')                   # [[b0, b1], [b2]]
    listsI = [[Elem(z3.simplify(e.val + BASE)) for e in lst] for lst in listsI]
    nc.content0, nc.lencontent = inner, BV(2)
    deep, listsD, offsD = build_listoffset64(nc, [2], name='deep')                        # [[[b0, b1], [b2]]]
    nc.content0, nc.lencontent = pA, lenA
    contents = [deep, shallow] if deep_first else [shallow, deep]
    s_tag, d_tag = (1, 0) if deep_first else (0, 1)
    tags_c = (s_tag, d_tag, s_tag)                                                         # entries: shallow[0], deep[0], shallow[1]
    bounds = [BV(1), BV(2)] if deep_first else [BV(2), BV(1)]
    outer, oidx = build_union8_64(nc, tags_c, contents, 'node', bounds)
    for t, v in zip(oidx, (0, 0, 1)):
        nc.m.assume(t == v)
    nc.m.record('ret', {})
    def replay(model, ent):
        A = 'i64 3 1 2 3 listoffset64 3 0 2 3 '
        B = 'i64 3 4 5 6 listoffset64 3 0 2 3 listoffset64 2 0 2 '
        prog = (B + A if deep_first else A + B) + 'union8_64 3 %d %d %d 0 0 1 2 flatten -1' % tags_c
        return akrun_check(prog, [1, 2, [4, 5, 6], 3], 'flatten(axis=-1) of the union [[1, 2], [[4, 5], [6]], [3]] (%s content first)' % ('deep' if deep_first else 'shallow'))
    unit = 'UnionArray8_64::offsets_and_flattened axis=-1 over contents of different depth (%s first)' % ('deep' if deep_first else 'shallow')
    try:
        out = nc.m.call('_ZNK7awkward12UnionArrayOfIalE21offsets_and_flattenedEll', [Ptr('ret', 0), outer, BV(-1), BV(0)])
    except Unsupported as err:
        if 'no feasible path' not in str(err):
            raise
        # every path ends in an access the engine refuses to follow (its own memory-safety obligations say which): they are discharged and replayed
        return mdischarge(nc.m, unit, [('the call comes back (returns or raises)', z3.BoolVal(True))], [], replay=replay, prefer=[lenA <= 8, lenB <= 8],
                          extra=dict(bounds='one fixed shape: entries (shallow[0], deep[0], shallow[1]); origins and leaf lengths symbolic'))
    obls = [('offsets_and_flattened does not raise', out.raised)]
    try:
        offs, _ = nc.index_terms(out.mem, Ptr('ret', 0), 'returned offsets')
    except (Unsupported, KeyError) as err:
        offs = None
        obls.append(('offsets that can be read back (%s)' % str(err)[:60], z3.Not(out.raised)))
    if offs is not None:
        if len(offs) != 4:
            obls.append(('one offset per entry of the union and one more (%d returned)' % len(offs), z3.BoolVal(True)))
        else:
            for i, (a, w) in enumerate(zip(offs, (0, 2, 3, 4))):
                obls.append(('offsets[%d] counts what the entries before contribute' % i, a != w))
    want = [listsS[0][0], listsS[0][1], listsI[0] + listsI[1], listsS[1][0]]
    try:
        cases = list(nodeh.decode_cases(nc, out.mem, nc.m.cell('ret', 56)))
    except (Unsupported, KeyError, TypeError) as err:
        cases = []
        obls.append(('a flattened content that can be read back (%s)' % str(err)[:60], z3.Not(out.raised)))
    for g, res in cases:
        if res is None:
            obls.append(('a result is returned', z3.And(g, z3.Not(out.raised))))
        else:
            obls += [(nm, z3.And(g, c)) for nm, c in nodeh.compare_value(res, want, strict=True)]

    return mdischarge(nc.m, unit, obls, [], replay=replay,
                      prefer=[lenA <= 8, lenB <= 8], extra=dict(bounds='one fixed shape: entries (shallow[0], deep[0], shallow[1]); origins and leaf lengths symbolic'))


# ------------------------------------------------------------------------------------------------ C12: values_astype of an n-dimensional leaf
@guard
def h_numpy_astype(shape, to='int32'):
    """NumpyArray::numbers_to_type (what ak.values_astype calls) on a contiguous n-dimensional int64 array: every element of every dimension is
    converted (C cast to the target type), the shape is kept, and nothing is read or written outside the buffers"""
    shape = tuple(shape)
    total = 1
    for x in shape:
        total *= x
    nc = NodeCtx(['NA', 'IDX', 'CNT', 'UTL', 'KD', 'IDS'], [], unwind=max(14, 2 * len(shape) + 2 * total + 10))
    nc.m.eng.stubs.update(string_stubs(nc))
    from .mbuild import cstring_stubs
    nc.m.eng.stubs.update({k_: v_ for k_, v_ in cstring_stubs().items() if 'compare' in k_})
    # harness nodes carry no parameters (__array__ is neither "byte" nor "char")
    # the parsing of the type name is not the subject: name_to_dtype answers the dtype of the concrete name
    nc.m.eng.stubs['_ZN7awkward4util13name_to_dtypeE*'] = lambda eng, fr, ins, st, name, argv: z3.BitVecVal(NP_DTYPES[to][0], 32)
    this, xs = build_numpynd(nc, 'arr', shape)
    kc = {}
    _string_cells(kc, 0, 'tname', to)
    name = nc.m.record('tname', kc, const=True)
    nc.m.record('ret', {})
    out = nc.m.call('_ZNK7awkward10NumpyArray15numbers_to_typeERKNSt7__cxx1112basic_stringIcSt11char_traitsIcESaIcEEE', [Ptr('ret', 0), this, name])
    obls = [('numbers_to_type does not raise', out.raised)]
    bits = {'int32': 32, 'int8': 8, 'int16': 16}[to]

    def nest(d, base):
        if d == len(shape) - 1:
            return [Elem(z3.SignExt(64 - bits, z3.Extract(bits - 1, 0, xs[base + i]))) for i in range(shape[d])]
        step = 1
        for x in shape[d + 1:]:
            step *= x
        return [nest(d + 1, base + i * step) for i in range(shape[d])]
    want = nest(0, 0)
    try:
        cases = list(nodeh.decode_cases(nc, out.mem, nc.m.cell('ret', 0)))
    except Unsupported as err:
        cases = []
        obls.append(('an answer that can be read back (%s)' % str(err)[:70], z3.Not(out.raised)))
    for g, res in cases:
        if res is None:
            obls.append(('a result is returned', z3.And(g, z3.Not(out.raised))))
        else:
            obls += [(nm, z3.And(g, c)) for nm, c in nodeh.compare_value(res, want)]

    def replay(model, ent):
        import numpy as np
        vals = [model.eval(x, model_completion=True).as_signed_long() for x in xs]
        vals = [v if abs(v) < 2 ** 40 else v % 1000 for v in vals]
        prog = 'i64nd %d %s %s astype %s' % (len(shape), ' '.join(map(str, shape)), ' '.join(map(str, vals)), to)
        exp = np.array(vals, dtype=np.int64).astype(to).reshape(shape).tolist()
        return akrun_check(prog, exp, 'values_astype(%s) of an int64 array of shape %s' % (to, shape))
    return mdischarge(nc.m, 'NumpyArray::numbers_to_type(%s) shape=%s' % (to, ','.join(map(str, shape))), obls, [], replay=replay,
                      extra=dict(bounds='shape %s concrete (case split), int64 values symbolic, contiguous' % (shape,)))


def jobs_numpy_astype(tier):
    q = [(3,), (2, 2), (3, 2)] if tier == 'quick' else [(0,), (3,), (2, 2), (3, 2), (1, 3), (2, 1, 2), (2, 0), (0, 2)]
    return [(h_numpy_astype, (s_,), 1800) for s_ in q] + ([(h_numpy_astype, ((2, 2), 'int8'), 1800)] if tier != 'quick' else [])


# ------------------------------------------------------------------------------------------------ C01: a union between two index arrays
@guard
def h_union_getitem_advanced(tags):
    """UnionArray8_64::getitem_next(index array, advanced) - the second of two index arrays arriving at a union: every content is handed the
    same item together with the pairing of *its own* entries (in their order in the union), and the answers go back to the positions of those
    entries"""
    tags = tuple(tags)
    n = len(tags)
    nc = NodeCtx(['UNI', 'IA', 'IDX', 'CNT', 'UTL', 'KD', 'IDS', 'EA', 'SLC'], [], unwind=max(14, 4 * n + 12))
    BASE = 1 << 32
    kk = z3.BitVec('k!', 64)
    lb = nc.m.bv('lencontentB')
    nc.m.assume(nc.lencontent >= 1, nc.lencontent <= 2 ** 20, lb >= 1, lb <= 2 ** 20)
    pb = nc.new_content_in(nc.m.mem, 'content_B', lb, z3.Lambda([kk], kk + BASE), const=True)
    F = z3.Function('F_getitem', z3.BitVecSort(64), z3.BitVecSort(64))
    seen = []

    def s_getitem_next(eng, fr, ins, st, name, argv):
        sret, selfp, head = argv[0], argv[1], argv[2]
        nm, info = nc.content_info(selfp, st, eng)
        try:            # read at the time of the call: the buffer object of the loop-local index is reused for the next content
            got_ = nc.index_terms(st.mem, argv[4], 'advanced handed on')[0]
        except (Unsupported, KeyError):
            got_ = None
        seen.append(dict(pc=st.pc, info=info, got=got_))
        nc._ret(st, sret, nc.fresh_content(eng, st, info['length'], z3.Lambda([kk], F(z3.Select(info['atoms'], kk))), derived='getitem'))
        return None
    nc.m.eng.stubs['vf$slot%d' % nc.slot('12getitem_nextERKSt10shared_ptrINS_9SliceItemEERKNS_5SliceERKNS_7IndexOfIlEE')] = s_getitem_next
    nc.m.eng.stubs['vf$slot%d' % nc.slot('9mergeableERKSt10shared_ptr')] = lambda eng, fr, ins, st, name, argv: z3.BitVecVal(0, 1)
    nc.m.eng.stubs.update(string_stubs(nc))
    this, idx = build_union8_64(nc, tags, [nc.content0, pb], 'node', [nc.lencontent, lb])
    tail, _adv = empty_tail_and_advanced(nc)
    item = _slice_item(nc, 0, 'array1')
    ad = nc.m.array('advdata', ('i', 64), max(1, n), const=True)
    a_ = z3.Array('advdata', z3.BitVecSort(64), z3.BitVecSort(64))
    advv = [z3.Select(a_, BV(i)) for i in range(n)]
    for v in advv:
        nc.m.assume(v >= 0, v < 2)
    cells_ = {}
    nc.index_cells(cells_, 0, ad, BV(0), BV(n))
    cells_[48] = (BV(0, 8), 1)
    adv = nc.m.record('advanced_pairing', cells_, const=True)
    head = nc.m.record('headptr', {0: (item, 8), 8: (NULL, 8)}, const=True)
    nc.m.record('ret', {})
    out = nc.m.call('_ZNK7awkward12UnionArrayOfIalE12getitem_nextERKSt10shared_ptrINS_9SliceItemEERKNS_5SliceERKNS_7IndexOfIlEE', [Ptr('ret', 0), this, head, tail, adv])
    obls = [('passing the item through does not raise', out.raised)]
    for ob in seen:
        info, pc = ob['info'], ob['pc']
        # which content is this? by the family of its atoms (content B's atoms are >= BASE)
        hl = nodeh.concrete(info['length'], 'length of the projected content', under=pc)
        for c in (0, 1):
            mine = [i for i, t in enumerate(tags) if t == c]
            if hl != len(mine):
                continue
            isc = z3.And([(z3.Select(info['atoms'], BV(k)) >= BASE) == bool(c) for k in range(hl)] + [z3.BoolVal(True)])
            got = ob['got']
            if got is None or len(got) != len(mine):
                obls.append(('content %d is handed one pairing position per entry of its own (%s handed on, %d entries)' % (c, '?' if got is None else len(got), len(mine)), z3.And(pc, isc)))
            else:
                for k, i in enumerate(mine):
                    obls.append(('content %d: the pairing of its entry %d (entry %d of the union) is handed on with it' % (c, k, i), z3.And(pc, isc, got[k] != advv[i])))
    want = [Elem(F(idx[i] + t * BASE)) for i, t in enumerate(tags)]
    rcell = nc.m.cell('ret', 0)
    for g, res in nodeh.decode_cases(nc, out.mem, rcell):
        if res is None:
            obls.append(('a result is returned', z3.And(g, z3.Not(out.raised))))
        else:
            obls += [(nm, z3.And(g, z3.Not(out.raised), c)) for nm, c in nodeh.compare_value(res, want)]

    def replay(model, ent):
        # contents: lists of two numbers / lists of two booleans; entry i of the union = list index[i] of its content (index from the model); x[[0..n-1], cols]
        iv = [model.eval(x, model_completion=True).as_signed_long() for x in idx]
        if max(iv + [0]) > 20:
            return False, 'index values too large to replay', {}
        na = max([v + 1 for v, t in zip(iv, tags) if t == 0] + [1])
        nb = max([v + 1 for v, t in zip(iv, tags) if t == 1] + [1])
        A = 'i64 %s regular 2 0 ' % fullnative.ints(range(10, 10 + 2 * na))
        B = 'bool %s regular 2 0 ' % fullnative.ints([(k // 2 + k) % 2 for k in range(2 * nb)])
        rowsA = [[10 + 2 * r, 11 + 2 * r] for r in range(na)]
        rowsB = [[bool((2 * r // 2 + 2 * r) % 2), bool(((2 * r + 1) // 2 + 2 * r + 1) % 2)] for r in range(nb)]
        rows = [(rowsA if t == 0 else rowsB)[v] for v, t in zip(iv, tags)]
        cols = [i % 2 for i in range(n)]
        prog = A + B + 'union8_64 %d %s %s 2 getitem 2 array %s array %s' % (n, ' '.join(map(str, tags)), ' '.join(map(str, iv)), fullnative.ints(range(n)), fullnative.ints(cols))
        return akrun_check(prog, [rows[i][cols[i]] for i in range(n)], 'union %s (index %s) sliced [[0..n-1], %s]' % (rows, iv, cols))
    return mdischarge(nc.m, 'UnionArray8_64::getitem_next(index array, advanced) tags=%s' % (tags,), obls, [], replay=replay, prefer=[nc.lencontent <= 8, lb <= 8],
                      extra=dict(bounds='%d entries, tags concrete (case split); index values and pairing symbolic; two opaque contents' % n))


def jobs_union_getitem_advanced(tier):
    q = [(0, 1, 0), (1, 0, 0, 1)] if tier == 'quick' else [(0, 1, 0), (1, 0, 0, 1), (0, 0), (1,), (0, 1), (1, 1, 0), (0, 1, 1, 0, 1)]
    return [(h_union_getitem_advanced, (t,), 1800) for t in q]


# ------------------------------------------------------------------------------------------------ C11 / C12: the parameter rules of validityerror
@guard
def h_validity_string_content(kind):
    """Content::validityerror_parameters on a list node marked as a string / bytestring whose content is marked char / byte but is not a
    NumpyArray (an invalid layout): the answer is an error text - the check itself must not dereference anything that is not there"""
    nc = NodeCtx(['CNT', 'LOA', 'LA', 'RA', 'NA', 'IDX', 'UTL', 'KD', 'IDS'], [], unwind=16)
    nc.m.eng.stubs.update(nodeh.STRING_LENGTH_STUBS)          # error texts: lengths only
    seen = []

    def s_param_equals(eng, fr, ins, st, name, argv):
        # (this, key, value): the list is marked "string" (or "bytestring": the first question is answered no), its content "char" / "byte"
        # (the value strings are built by length-only string stubs: the questions are told apart by their order - "string"?, then for a
        # bytestring "bytestring"?, then the content's "char" / "byte"?)
        seen.append(len(seen))
        answers = [1, 1] if kind == 'string' else [0, 1, 1]
        k_ = seen[-1]
        return z3.BitVecVal(answers[k_] if k_ < len(answers) else 0, 1)
    nc.m.eng.stubs['_ZNK7awkward7Content16parameter_equalsERKNSt7__cxx1112basic_stringIcSt11char_traitsIcESaIcEEES8_'] = s_param_equals
    nc.m.eng.stubs['_ZN7awkward4util16parameter_equalsE*'] = s_param_equals        # (inlined callers reach the free function directly)
    nc.m.eng.stubs['vf$slot%d' % nc.slot('9classnameB5cxx11Ev')] = nodeh.s_some_string
    this, lists, offs = build_listoffset64(nc, [1, 2])
    pc_ = {}
    _string_cells(pc_, 0, 'path', 'layout')
    path = nc.m.record('path', pc_, const=True)
    nc.m.record('ret', {})
    unit = 'Content::validityerror_parameters %s over a non-NumpyArray content' % kind
    try:
        out = nc.m.call('_ZNK7awkward7Content24validityerror_parametersERKNSt7__cxx1112basic_stringIcSt11char_traitsIcESaIcEEE', [Ptr('ret', 0), this, path])
        obls = [('the check does not raise', out.raised)]
    except Unsupported as err:
        if 'no feasible path' not in str(err):
            raise
        obls = [('the check comes back (returns or raises)', z3.BoolVal(True))]
    # the engine's own obligations (a virtual call through a null pointer, control reaching `unreachable` ...) are discharged with these

    def replay(model, ent):
        prog = 'u8 3 97 98 99 indexed64 3 0 1 2 param __array__ "%s" listoffset64 3 0 1 3 param __array__ "%s" validity' % (('char', 'string') if kind == 'string' else ('byte', 'bytestring'))
        kind_, got = fullnative.akrun(prog)
        payload = dict(program=prog, native=[kind_, got])
        if kind_ != 'OK' or not got:
            return True, 'validity check of a %s list whose %s content is an IndexedArray64: native library %s %s (an error text is expected)' % (kind, 'char' if kind == 'string' else 'byte', kind_, str(got)[:200]), payload
        return False, 'native library answers %r' % got[:80], payload
    return mdischarge(nc.m, unit, obls, [], replay=replay,
                      extra=dict(bounds='one list node over an opaque content; parameter lookups (rapidjson comparison) stubbed by their answers'))


@guard
def h_list_validity(n, view):
    """ListOffsetArray64::validityerror with the offsets being a window (starting `view` entries in) of a longer buffer, as a range slice leaves
    them: the rule check (the kernel awkward_ListArray64_validity, decided on its own for arbitrary offsets by the C11 kernel harnesses) is handed
    the starts and stops *of the window* - entries view.. and view+1.. of the buffer -, the number of lists and the content's length; when it
    finds nothing the content is asked about itself and its answer is returned"""
    nc = NodeCtx(['LOA', 'CNT', 'LA', 'RA', 'NA', 'IDX', 'UTL', 'KD', 'IDS'], [], unwind=max(16, 2 * n + view + 12))
    nc.m.eng.stubs.update(nodeh.STRING_LENGTH_STUBS)          # texts: lengths only
    ss_ = string_stubs(nc)
    nc.m.eng.stubs.update({k_: ss_[k_] for k_ in ('memcmp', 'bcmp')})          # (comparing with the empty text: zero bytes)
    nc.m.eng.stubs['_ZNK7awkward7Content16parameter_equalsERKNSt7__cxx1112basic_stringIcSt11char_traitsIcESaIcEEES8_'] = lambda eng, fr, ins, st, name, argv: z3.BitVecVal(0, 1)
    nc.m.eng.stubs['_ZN7awkward4util16parameter_equalsE*'] = lambda eng, fr, ins, st, name, argv: z3.BitVecVal(0, 1)
    nc.m.eng.stubs['vf$slot%d' % nc.slot('9classnameB5cxx11Ev')] = nodeh.s_some_string
    nc.m.eng.stubs['_ZNK7awkward7Content24validityerror_parametersE*'] = nodeh.s_empty_string          # a list without parameters: nothing to say about them
    asked, seen = [], []

    def s_content_validity(eng, fr, ins, st, name, argv):
        asked.append(st.pc)
        n_ = z3.FreshConst(z3.BitVecSort(64), 'contenttext')
        eng.s.add(n_ >= 0, n_ <= 64)
        asked_len.append(n_)
        nodeh._set_string(eng, st, argv[0], n_)
        return None
    asked_len = []

    def s_kernel(eng, fr, ins, st, name, argv):
        sret, starts_, stops_, length, lencontent = argv
        seen.append(dict(pc=st.pc, starts=starts_, stops=stops_, length=length, lencontent=lencontent))
        rec = st.mem.o[sret.obj]
        for off, (v, w) in {0: (NULL, 8), 8: (NULL, 8), 16: (BV(2 ** 63 - 1), 8), 24: (BV(2 ** 63 - 1), 8), 32: (BV(0, 8), 1)}.items():
            rec.cells[sret.off + off] = (v, w)
        return None
    nc.m.eng.stubs['awkward_ListArray64_validity'] = s_kernel
    nc.m.eng.stubs['vf$slot%d' % nc.slot('13validityerrorERKNSt7__cxx1112basic_string')] = s_content_validity
    fo, sz, al, fields = nc.layout_of('LOA', '_ZNK7awkward17ListOffsetArrayOfIlE6lengthEv')
    total = view + n + 1
    data = nc.m.array('vo_offsets', ('i', 64), total, const=True)
    cells = nc.content_header('node', nc.vptr_of('N7awkward17ListOffsetArrayOfIlEE', 'LOA'))
    nc.index_cells(cells, fo[1], data, BV(view), BV(n + 1))
    cells.update({fo[2]: (nc.content0, 8), fo[2] + 8: (NULL, 8), fo[3]: (BV(0, 8), 1)})
    this = nc.m.record('node', cells, const=True)
    pc_ = {}
    _string_cells(pc_, 0, 'path', 'layout')
    path = nc.m.record('path', pc_, const=True)
    nc.m.record('ret', {})
    out = nc.m.call('_ZNK7awkward17ListOffsetArrayOfIlE13validityerrorERKNSt7__cxx1112basic_stringIcSt11char_traitsIcESaIcEEE', [Ptr('ret', 0), this, path])
    ln = out.mem.o['ret'].cells[8][0]
    obls = [('the check does not raise', out.raised), ('the rule check is run', z3.Not(z3.Or([ob['pc'] for ob in seen] + [z3.BoolVal(False)]))),
            ('the content is asked about itself when the offsets obey the rules', z3.Not(z3.Or(asked + [z3.BoolVal(False)])))]

    def points_at(p, k):
        cs = nodeh.ptr_cases(p)
        return z3.Or([z3.And(g, z3.BoolVal(q.obj == 'vo_offsets'), bv64_(q.off) == k) for g, q in cs] + [z3.BoolVal(False)])
    bv64_ = lambda x: BV(x) if isinstance(x, int) else x
    for ob in seen:
        g = ob['pc']
        obls.append(('the starts checked are the window\'s: entries %d.. of the offsets buffer' % view, z3.And(g, z3.Not(points_at(ob['starts'], view)))))
        obls.append(('the stops checked are the window\'s: entries %d.. of the offsets buffer' % (view + 1), z3.And(g, z3.Not(points_at(ob['stops'], view + 1)))))
        obls.append(('as many lists are checked as the array has, against the length of its content', z3.And(g, z3.Or(ob['length'] != n, ob['lencontent'] != nc.lencontent))))
    for pc, n_ in zip(asked, asked_len):
        obls.append(('what the content says about itself is the answer', z3.And(pc, z3.Not(out.raised), ln != n_)))

    def replay(model, ent):
        # a window whose own offsets are fine behind a prefix that is not, and the other way round
        results = []
        for bufv, lc, want_bad in (([9] * view + [1 + k for k in range(n + 1)], n + 1, False), ([0] * view + [7] + [1] * n, 8, n > 0)):
            prog = 'i64 %s listoffset64 %s viewfrom %d validity' % (fullnative.ints(range(lc)), fullnative.ints(bufv), view)
            kind_, got = fullnative.akrun(prog)
            results.append(dict(program=prog, native=[kind_, got], window=bufv[view:], invalid=want_bad))
            if kind_ != 'OK' or bool(got) != want_bad:
                return True, 'ListOffsetArray64 with offsets %s (a window starting %d entries into the buffer %s) over a content of %d: these offsets are %s, the native check says %s %r' % (
                    bufv[view:], view, bufv, lc, 'invalid' if want_bad else 'valid', kind_, str(got)[:120]), dict(runs=results)
        return False, 'native check agrees on both witnesses', dict(runs=results)
    return mdischarge(nc.m, 'ListOffsetArray64::validityerror %d lists, offsets window starting at %d' % (n, view), obls, [], replay=replay,
                      extra=dict(bounds='%d lists (case split), offsets window %d entries into its buffer; offsets and content length symbolic; the rule kernel is a stub that finds nothing (its verdicts are the C11 kernel harnesses\' subject)' % (n, view)))


def jobs_list_validity(tier):
    q = [(2, 0), (2, 1), (1, 2)]
    if tier != 'quick':
        q += [(0, 0), (0, 2), (3, 1), (1, 0), (3, 0)]
    return [(h_list_validity, a, 1800) for a in q]


def _window_replay(cls, n, view):
    """native witnesses for the window harnesses: a window that obeys the rules behind a prefix that does not (and one that breaks them behind a
    harmless prefix); -> (violated?, text, payload)"""
    runs = []
    for poisoned in (True, False):
        pre = [9] * view if poisoned else [0] * view
        if cls == 'ListArray64':
            starts = pre + [k for k in range(n)]
            stops = ([1] * view if poisoned else [0] * view) + [k + 1 for k in range(n)]
            if not poisoned and n:
                starts[view], stops[view] = 5, 1            # start > stop inside the window
            head = 'i64 %s list64 %d %s %s ' % (fullnative.ints(range(max(n, 1))), view + n, ' '.join(map(str, starts)), ' '.join(map(str, stops)))
        elif cls in ('IndexedArray64', 'IndexedOptionArray64'):
            idx = ([99] * view if poisoned else [0] * view) + [k % max(n, 1) for k in range(n)]
            if not poisoned and n:
                idx[view] = 77                              # beyond the content inside the window
            head = 'i64 %s %s %s ' % (fullnative.ints(range(max(n, 1))), 'option64' if 'Option' in cls else 'indexed64', fullnative.ints(idx))
        else:
            tags = pre + [k % 2 for k in range(n)]
            if not poisoned and n:
                tags[view] = 9                              # no such content inside the window
            head = 'i64 2 0 1 i64 2 5 6 union8_64 %d %s %s 2 ' % (view + n, ' '.join(map(str, tags)), ' '.join('0' for _ in tags))
        prog = head + 'rangeof %d %d validity' % (view, view + n)
        want_bad = (not poisoned) and n > 0
        kind_, got = fullnative.akrun(prog)
        runs.append(dict(program=prog, native=[kind_, got], window_invalid=want_bad))
        if kind_ != 'OK' or bool(got) != want_bad:
            return True, '%s, entries %d..%d of its buffers (%s): the window is %s, the native check says %s %r' % (cls, view, view + n, prog, 'invalid' if want_bad else 'valid', kind_, str(got)[:120]), dict(runs=runs)
    return False, 'native check agrees on both witnesses', dict(runs=runs)


@guard
def h_window_validity(cls, n, view):
    """validityerror of a ListArray64 / IndexedArray64 / IndexedOptionArray64 whose index buffers are windows (starting `view` entries in) of
    longer buffers, as a range slice leaves them: the rule kernel is handed the *window* of every buffer, the number of entries and the
    content's length (and, for the indexed classes, whether negative entries mean "missing"); when it finds nothing the content is asked about
    itself and its answer is returned"""
    # (only the node's own translation unit: string literals are module-private globals, and the empty literal this method compares with
    # must be its own)
    nc = NodeCtx(['LA' if cls == 'ListArray64' else 'IA', 'CNT', 'IDX', 'UTL', 'KD', 'IDS'], [], unwind=max(16, 2 * n + view + 12))
    nc.m.eng.stubs.update(nodeh.STRING_LENGTH_STUBS)
    ss_ = string_stubs(nc)
    nc.m.eng.stubs.update({k_: ss_[k_] for k_ in ('memcmp', 'bcmp')})
    nc.m.eng.stubs['_ZNK7awkward7Content16parameter_equalsERKNSt7__cxx1112basic_stringIcSt11char_traitsIcESaIcEEES8_'] = lambda eng, fr, ins, st, name, argv: z3.BitVecVal(0, 1)
    nc.m.eng.stubs['_ZN7awkward4util16parameter_equalsE*'] = lambda eng, fr, ins, st, name, argv: z3.BitVecVal(0, 1)
    nc.m.eng.stubs['vf$slot%d' % nc.slot('9classnameB5cxx11Ev')] = nodeh.s_some_string
    nc.m.eng.stubs['_ZNK7awkward7Content24validityerror_parametersE*'] = nodeh.s_empty_string
    asked, asked_len, seen = [], [], []

    def s_content_validity(eng, fr, ins, st, name, argv):
        asked.append(st.pc)
        n_ = z3.FreshConst(z3.BitVecSort(64), 'contenttext')
        eng.s.add(n_ >= 0, n_ <= 64)
        asked_len.append(n_)
        nodeh._set_string(eng, st, argv[0], n_)
        return None

    def ok_error(st, sret):
        rec = st.mem.o[sret.obj]
        for off, (v, w) in {0: (NULL, 8), 8: (NULL, 8), 16: (BV(2 ** 63 - 1), 8), 24: (BV(2 ** 63 - 1), 8), 32: (BV(0, 8), 1)}.items():
            rec.cells[sret.off + off] = (v, w)

    def s_list_kernel(eng, fr, ins, st, name, argv):
        sret, starts_, stops_, length, lencontent = argv
        seen.append(dict(pc=st.pc, bufs=[('starts', starts_, 'vw_starts'), ('stops', stops_, 'vw_stops')], length=length, lencontent=lencontent, isoption=None))
        ok_error(st, sret)
        return None

    def s_index_kernel(eng, fr, ins, st, name, argv):
        sret, index_, length, lencontent, isopt = argv
        seen.append(dict(pc=st.pc, bufs=[('index', index_, 'vw_index')], length=length, lencontent=lencontent, isoption=isopt))
        ok_error(st, sret)
        return None
    nc.m.eng.stubs['awkward_ListArray64_validity'] = s_list_kernel
    nc.m.eng.stubs['awkward_IndexedArray64_validity'] = s_index_kernel
    nc.m.eng.stubs['vf$slot%d' % nc.slot('13validityerrorERKNSt7__cxx1112basic_string')] = s_content_validity
    total = view + n
    if cls == 'ListArray64':
        fo, sz, al, fields = nc.layout_of('LA', '_ZNK7awkward11ListArrayOfIlE6lengthEv')
        d1 = nc.m.array('vw_starts', ('i', 64), max(1, total), const=True)
        d2 = nc.m.array('vw_stops', ('i', 64), max(1, total + 1), const=True)          # (the stops buffer may be longer than the starts)
        cells = nc.content_header('node', nc.vptr_of('N7awkward11ListArrayOfIlEE', 'LA'))
        nc.index_cells(cells, fo[1], d1, BV(view), BV(n))
        nc.index_cells(cells, fo[2], d2, BV(view), BV(n))
        cells.update({fo[3]: (nc.content0, 8), fo[3] + 8: (NULL, 8)})
        sym = '_ZNK7awkward11ListArrayOfIlE13validityerrorERKNSt7__cxx1112basic_stringIcSt11char_traitsIcESaIcEEE'
        want_opt = None
    else:
        option = cls == 'IndexedOptionArray64'
        fo, sz, al, fields = nc.layout_of('IA', '_ZNK7awkward14IndexedArrayOfIlLb%dEE6lengthEv' % (1 if option else 0))
        d1 = nc.m.array('vw_index', ('i', 64), max(1, total), const=True)
        cells = nc.content_header('node', nc.vptr_of('N7awkward14IndexedArrayOfIlLb%dEEE' % (1 if option else 0), 'IA'))
        nc.index_cells(cells, fo[1], d1, BV(view), BV(n))
        cells.update({fo[2]: (nc.content0, 8), fo[2] + 8: (NULL, 8)})
        sym = '_ZNK7awkward14IndexedArrayOfIlLb%dEE13validityerrorERKNSt7__cxx1112basic_stringIcSt11char_traitsIcESaIcEEE' % (1 if option else 0)
        want_opt = 1 if option else 0
    this = nc.m.record('node', cells, const=True)
    pc_ = {}
    _string_cells(pc_, 0, 'path', 'layout')
    path = nc.m.record('path', pc_, const=True)
    nc.m.record('ret', {})
    out = nc.m.call(sym, [Ptr('ret', 0), this, path])
    ln = out.mem.o['ret'].cells[8][0]
    obls = [('the check does not raise', out.raised), ('the rule check is run', z3.Not(z3.Or([ob['pc'] for ob in seen] + [z3.BoolVal(False)]))),
            ('the content is asked about itself when the entries obey the rules', z3.Not(z3.Or(asked + [z3.BoolVal(False)])))]
    bv64_ = lambda x: BV(x) if isinstance(x, int) else x
    for ob in seen:
        g = ob['pc']
        for what, p, bufname in ob['bufs']:
            at = z3.Or([z3.And(gg, z3.BoolVal(q.obj == bufname), bv64_(q.off) == view) for gg, q in nodeh.ptr_cases(p)] + [z3.BoolVal(False)])
            obls.append(('the %s checked are the window\'s: entries %d.. of their buffer' % (what, view), z3.And(g, z3.Not(at))))
        obls.append(('as many entries are checked as the array has, against the length of its content', z3.And(g, z3.Or(ob['length'] != n, ob['lencontent'] != nc.lencontent))))
        if want_opt is not None:
            io = ob['isoption'] if ob['isoption'].size() == 1 else z3.Extract(0, 0, ob['isoption'])
            obls.append(('negative entries are %s' % ('allowed (missing values)' if want_opt else 'not allowed'), z3.And(g, io != z3.BitVecVal(want_opt, 1))))
    for pc, n_ in zip(asked, asked_len):
        obls.append(('what the content says about itself is the answer', z3.And(pc, z3.Not(out.raised), ln != n_)))
    return mdischarge(nc.m, '%s::validityerror %d entries, index window starting at %d' % (cls, n, view), obls, [], replay=(lambda model, ent: _window_replay(cls, n, view)),
                      extra=dict(bounds='%d entries (case split), index buffers windows %d entries into their buffers; entries and content length symbolic; the rule kernel is a stub that finds nothing (its verdicts are the C11 kernel harnesses\' subject)' % (n, view)))


@guard
def h_union_validity(n, view, ncontents=2):
    """UnionArray8_64::validityerror with tags and index that are windows (starting `view` entries in) of longer buffers: the rule kernel is handed
    the windows, the number of entries, the number of contents and the length of every content in order; when it finds nothing every content is
    asked about itself and the first complaint (here: none) is the answer"""
    nc = NodeCtx(['UNI', 'CNT', 'IDX', 'UTL', 'KD', 'IDS'], [], unwind=max(16, 2 * n + view + 4 * ncontents + 12))
    nc.m.eng.stubs.update(nodeh.STRING_LENGTH_STUBS)
    ss_ = string_stubs(nc)
    nc.m.eng.stubs.update({k_: ss_[k_] for k_ in ('memcmp', 'bcmp')})
    nc.m.eng.stubs['_ZNK7awkward7Content16parameter_equalsERKNSt7__cxx1112basic_stringIcSt11char_traitsIcESaIcEEES8_'] = lambda eng, fr, ins, st, name, argv: z3.BitVecVal(0, 1)
    nc.m.eng.stubs['_ZN7awkward4util16parameter_equalsE*'] = lambda eng, fr, ins, st, name, argv: z3.BitVecVal(0, 1)
    nc.m.eng.stubs['vf$slot%d' % nc.slot('9classnameB5cxx11Ev')] = nodeh.s_some_string
    nc.m.eng.stubs['_ZNK7awkward7Content24validityerror_parametersE*'] = nodeh.s_empty_string
    asked, seen = [], []
    kk = z3.BitVec('k!', 64)
    BASE = 1 << 32
    ptrs, lens = [nc.content0], [nc.lencontent]
    nc.m.assume(nc.lencontent >= 0, nc.lencontent <= 2 ** 20)
    for k in range(1, ncontents):
        ln = nc.m.bv('lencontent_v%d' % k)
        nc.m.assume(ln >= 0, ln <= 2 ** 20)
        ptrs.append(nc.new_content_in(nc.m.mem, 'content_v%d' % k, ln, z3.Lambda([kk], kk + k * BASE), const=True)); lens.append(ln)
    names = ['content0'] + ['content_v%d' % k for k in range(1, ncontents)]

    def s_content_validity(eng, fr, ins, st, name, argv):
        objs = [q.obj for g, q in nodeh.ptr_cases(argv[1]) if q.obj is not None]
        asked.append((st.pc, objs[0] if len(objs) == 1 else None))
        return nodeh.s_empty_string(eng, fr, ins, st, name, argv)

    def s_kernel(eng, fr, ins, st, name, argv):
        sret, tags_, index_, length, numc, lenc = argv
        lcs = []
        for k in range(ncontents):
            try:
                lcs.append(eng.load(st, Ptr(lenc.obj, lenc.off + (8 * k if isinstance(st.mem.o[lenc.obj], nodeh.RecObj) else k)), 'i64', fr.mod, 'stub'))
            except Exception:      # noqa
                lcs.append(None)
        seen.append(dict(pc=st.pc, tags=tags_, index=index_, length=length, numc=numc, lcs=lcs))
        rec = st.mem.o[sret.obj]
        for off, (v, w) in {0: (NULL, 8), 8: (NULL, 8), 16: (BV(2 ** 63 - 1), 8), 24: (BV(2 ** 63 - 1), 8), 32: (BV(0, 8), 1)}.items():
            rec.cells[sret.off + off] = (v, w)
        return None
    nc.m.eng.stubs['awkward_UnionArray8_64_validity'] = s_kernel
    nc.m.eng.stubs['vf$slot%d' % nc.slot('13validityerrorERKNSt7__cxx1112basic_string')] = s_content_validity
    fo, sz, al, fields = nc.layout_of('UNI', '_ZNK7awkward12UnionArrayOfIalE6lengthEv')
    total = view + n
    tdata = nc.m.array('uv_tags', ('i', 8), max(1, total), const=True)
    idata = nc.m.array('uv_index', ('i', 64), max(1, total), const=True)
    cells = nc.content_header('node', nc.vptr_of('N7awkward12UnionArrayOfIalEE', 'UNI'))
    nc.index_cells(cells, fo[1], tdata, BV(view), BV(n), mangled_T='a')
    nc.index_cells(cells, fo[2], idata, BV(view), BV(n))
    bufc = {}
    for i, cp in enumerate(ptrs):
        bufc[16 * i] = (cp, 8); bufc[16 * i + 8] = (NULL, 8)
    nc.m.record('node_contents', bufc, const=True)
    nb = 16 * ncontents
    cells.update({fo[3]: (Ptr('node_contents', 0), 8), fo[3] + 8: (Ptr('node_contents', nb), 8), fo[3] + 16: (Ptr('node_contents', nb), 8)})
    this = nc.m.record('node', cells, const=True)
    pc_ = {}
    _string_cells(pc_, 0, 'path', 'layout')
    path = nc.m.record('path', pc_, const=True)
    nc.m.record('ret', {})
    out = nc.m.call('_ZNK7awkward12UnionArrayOfIalE13validityerrorERKNSt7__cxx1112basic_stringIcSt11char_traitsIcESaIcEEE', [Ptr('ret', 0), this, path])
    ln = out.mem.o['ret'].cells.get(8)
    obls = [('the check does not raise', out.raised), ('the rule check is run', z3.Not(z3.Or([ob['pc'] for ob in seen] + [z3.BoolVal(False)])))]
    bv64_ = lambda x: BV(x) if isinstance(x, int) else x
    for ob in seen:
        g = ob['pc']
        for what, p, bufname in (('tags', ob['tags'], 'uv_tags'), ('index', ob['index'], 'uv_index')):
            at = z3.Or([z3.And(gg, z3.BoolVal(q.obj == bufname), bv64_(q.off) == view) for gg, q in nodeh.ptr_cases(p)] + [z3.BoolVal(False)])
            obls.append(('the %s checked are the window\'s: entries %d.. of their buffer' % (what, view), z3.And(g, z3.Not(at))))
        obls.append(('as many entries are checked as the array has, against %d contents' % ncontents, z3.And(g, z3.Or(ob['length'] != n, ob['numc'] != ncontents))))
        for k in range(ncontents):
            obls.append(('content %d enters the check with its own length' % k, z3.And(g, (ob['lcs'][k] != lens[k]) if ob['lcs'][k] is not None else z3.BoolVal(True))))
    for k in range(ncontents):
        hit = [pc for pc, nm in asked if nm == names[k]]
        obls.append(('content %d is asked about itself' % k, z3.And(z3.Not(out.raised), z3.Not(z3.Or(hit + [z3.BoolVal(False)])))))
    if ln is not None:
        obls.append(('nothing to complain about: an empty answer', z3.And(z3.Not(out.raised), ln[0] != 0)))
    return mdischarge(nc.m, 'UnionArray8_64::validityerror %d entries, %d contents, tags / index windows starting at %d' % (n, ncontents, view), obls, [], replay=(lambda model, ent: _window_replay('UnionArray8_64', n, view)) if ncontents == 2 else None,
                      extra=dict(bounds='%d entries and %d contents (case split), tags / index windows %d entries into their buffers; the rule kernel is a stub that finds nothing (its verdicts are the C11 kernel harnesses\' subject); every content answers "valid"' % (n, ncontents, view)))


def jobs_window_validity(tier):
    q = [('ListArray64', 2, 1), ('IndexedArray64', 2, 1), ('IndexedOptionArray64', 2, 2)]
    if tier != 'quick':
        q += [(c, n_, v_) for c in ('ListArray64', 'IndexedArray64', 'IndexedOptionArray64') for n_, v_ in ((0, 0), (1, 0), (3, 2))]
    uq = [(2, 1, 2)] if tier == 'quick' else [(2, 1, 2), (0, 0, 1), (3, 2, 3), (1, 0, 2)]
    return [(h_window_validity, a, 1800) for a in q] + [(h_union_validity, a, 1800) for a in uq]


@guard
def h_indexed_is_unique(pattern, view, option=True):
    """IndexedArray64 / IndexedOptionArray64::is_unique with the index a window (starting `view` entries in) of a longer buffer: the content is
    asked whether the entries the *window* selects - every non-missing one, in order - are unique, and its answer is the answer (the first
    entries of a sliced array count like the others)"""
    pattern = tuple(bool(x) for x in pattern)
    n = len(pattern)
    nc = NodeCtx(['IA', 'IDX', 'CNT', 'UTL', 'KD', 'IDS'], [], unwind=max(14, 3 * (n + view) + 12))
    fo, sz, al, fields = nc.layout_of('IA', '_ZNK7awkward14IndexedArrayOfIlLb%dEE6lengthEv' % (1 if option else 0))
    total = n + view
    data = nc.m.array('iu_index', ('i', 64), max(1, total), const=True)
    a0 = z3.Array('iu_index', z3.BitVecSort(64), z3.BitVecSort(64))
    buf = [z3.Select(a0, BV(i)) for i in range(total)]
    idx = buf[view:]
    for v in buf[:view]:
        nc.m.assume(v >= 0, v < nc.lencontent)
    for i, miss in enumerate(pattern):
        nc.m.assume(idx[i] < 0 if miss else z3.And(idx[i] >= 0, idx[i] < nc.lencontent))
    cells = nc.content_header('node', nc.vptr_of('N7awkward14IndexedArrayOfIlLb%dEEE' % (1 if option else 0), 'IA'))
    nc.index_cells(cells, fo[1], data, BV(view), BV(n))
    cells.update({fo[2]: (nc.content0, 8), fo[2] + 8: (NULL, 8)})
    this = nc.m.record('node', cells, const=True)
    seen = []
    U = nc.m.bv('content_says_unique', 1)

    def s_is_unique(eng, fr, ins, st, name, argv):
        nm, info = nc.content_info(argv[0], st, eng)
        seen.append(dict(pc=st.pc, info=info))
        return U
    nc.m.eng.stubs['vf$slot%d' % nc.slot('9is_uniqueEv')] = s_is_unique
    out = nc.m.call('_ZNK7awkward14IndexedArrayOfIlLb%dEE9is_uniqueEv' % (1 if option else 0), [this])
    valid = [i for i, m_ in enumerate(pattern) if not m_]
    obls = [('is_unique does not raise', out.raised), ('the content is asked', z3.Not(z3.Or([ob['pc'] for ob in seen] + [z3.BoolVal(False)])))]
    for ob in seen:
        g, info = ob['pc'], ob['info']
        obls.append(('the content is asked about exactly the %d non-missing entries of the window' % len(valid), z3.And(g, info['length'] != len(valid))))
        for k, i in enumerate(valid):
            obls.append(('entry %d asked about is window entry %d' % (k, i), z3.And(g, z3.Select(info['atoms'], BV(k)) != idx[i])))
    if out.ret is not None:
        r1 = out.ret if out.ret.size() == 1 else z3.Extract(0, 0, out.ret)
        obls.append(('the content\'s answer is the answer', z3.And(z3.Not(out.raised), r1 != U)))

    def replay(model, ent):
        bv = [model.eval(x, model_completion=True).as_signed_long() for x in buf]
        lc = max([model.eval(nc.lencontent, model_completion=True).as_signed_long(), 1] + [v + 1 for v in bv])
        if lc > 60:
            return False, 'content too long to replay', {}
        vals = list(range(lc))
        prog = 'i64 %s %s %s rangeof %d %d isunique' % (fullnative.ints(vals), 'option64' if option else 'indexed64', fullnative.ints(bv), view, total)
        shown = [vals[v] for v in bv[view:] if v >= 0]
        want = len(set(shown)) == len(shown)
        kind_, got = fullnative.akrun(prog)
        payload = dict(program=prog, native=[kind_, got], window=bv[view:], expected=want)
        if kind_ != 'OK' or bool(got) != want:
            return True, '%s with index window %s (starting %d entries into %s) over distinct numbers: is_unique gives %s %s, the entries shown are %s' % (
                'IndexedOptionArray64' if option else 'IndexedArray64', bv[view:], view, bv, kind_, got, 'all different' if want else 'not all different'), payload
        return False, 'native library agrees (%s)' % got, payload
    # steer the counterexample towards a duplicate inside the window
    pref = [nc.lencontent <= 8] + ([idx[valid[0]] == idx[valid[1]]] if len(valid) > 1 else [])
    return mdischarge(nc.m, '%s::is_unique pattern=%s index window starting at %d' % ('IndexedOptionArray64' if option else 'IndexedArray64', ''.join('N' if p_ else 'v' for p_ in pattern), view), obls, [], replay=replay, prefer=pref,
                      extra=dict(bounds='%d entries (missing pattern concrete: case split), index window %d entries into its buffer, index values symbolic; the content answers an arbitrary boolean' % (n, view)))


def jobs_indexed_is_unique(tier):
    q = [((0, 0), 0, False), ((0, 0), 1, False), ((0, 1, 0), 2, True)]
    if tier != 'quick':
        q += [((0, 0, 0), 3, False), ((1, 0, 0), 1, True), ((0,), 0, True), ((0, 0), 2, True)]
    return [(h_indexed_is_unique, a, 1800) for a in q]


def jobs_validity_params(tier):
    return [(h_validity_string_content, (k,), 900) for k in ('string', 'bytestring')]


# ------------------------------------------------------------------------------------------------ C08: concatenating integer arrays of different types
INT_PROMOTION = {   # (a, b) -> result type of numpy.concatenate (integer results only)
    ('uint32', 'int64'): 'int64', ('int64', 'uint32'): 'int64', ('uint32', 'int32'): 'int64', ('uint16', 'int32'): 'int32', ('uint8', 'int16'): 'int16',
    ('int8', 'int64'): 'int64', ('uint8', 'uint32'): 'uint32', ('int32', 'int64'): 'int64', ('uint16', 'int64'): 'int64', ('uint8', 'int64'): 'int64',
    ('int16', 'int32'): 'int32', ('uint16', 'uint64'): 'uint64', ('int32', 'uint16'): 'int32', ('int64', 'int8'): 'int64', ('uint32', 'uint64'): 'uint64',
    ('bool', 'int64'): 'int64', ('bool', 'uint8'): 'uint8',
}


@guard
def h_numpy_mergemany_types(dta, dtb, n=2):
    """NumpyArray::mergemany of two one-dimensional integer arrays of different types: the result has the item size of NumPy's promoted type and
    holds every value of the first array, then of the second, each converted exactly (an unsigned value stays non-negative, a signed one keeps
    its sign)"""
    res_t = INT_PROMOTION[(dta, dtb)]
    nc = NodeCtx(['NA', 'IDX', 'CNT', 'UTL', 'KD', 'IDS', 'EA'], [], unwind=max(24, 8 * n + 20))
    a, xa, _fa = build_numpy1d(nc, 'npa', n, dta)
    b, xb, _fb = build_numpy1d(nc, 'npb', n, dtb)
    nc.m.record('othersbuf', {0: (b, 8), 8: (NULL, 8)}, const=True)
    others = nc.m.record('others', {0: (Ptr('othersbuf', 0), 8), 8: (Ptr('othersbuf', 16), 8), 16: (Ptr('othersbuf', 16), 8)}, const=True)
    nc.m.record('ret', {})
    out = nc.m.call('_ZNK7awkward10NumpyArray9mergemanyERKSt6vectorISt10shared_ptrINS_7ContentEESaIS4_EE', [Ptr('ret', 0), a, others])
    obls = [('mergemany does not raise', out.raised)]
    rbits = NP_DTYPES[res_t][1][1]

    def conv(x, dt):
        kind, sgn = NP_DTYPES[dt][1], NP_DTYPES[dt][4]
        if dt == 'bool':
            v = z3.If(x != 0, BV(1), BV(0))
        elif kind[1] == 64:
            v = x
        else:
            v = z3.SignExt(64 - kind[1], x) if sgn == 's' else z3.ZeroExt(64 - kind[1], x)
        return z3.Extract(rbits - 1, 0, v)
    want = [conv(x, dta) for x in xa] + [conv(x, dtb) for x in xb]
    rcell = nc.m.cell('ret', 0)
    for g, res in nodeh.decode_cases(nc, out.mem, rcell):
        if res is None:
            obls.append(('a result is returned', z3.And(g, z3.Not(out.raised))))
            continue
        ok = z3.And(g, z3.Not(out.raised))
        if res['cls'] != 'numpy' or len(res['values']) != 2 * n:
            obls.append(('the result is a flat array of all %d values' % (2 * n), ok)); continue
        obls.append(('the item size is that of %s' % res_t, z3.And(ok, z3.BoolVal(res['itemsize'] != rbits // 8))))
        for k, (v, w) in enumerate(zip(res['values'], want)):
            vv = v if v.size() == rbits else z3.Extract(rbits - 1, 0, v)
            obls.append(('value %d is converted exactly' % k, z3.And(ok, vv != w)))

    TOK = {'int64': 'i64', 'int32': 'i32', 'int16': 'i16', 'int8': 'i8', 'uint8': 'u8', 'uint16': 'u16', 'uint32': 'u32', 'uint64': 'u64', 'bool': 'bool'}

    def replay(model, ent):
        import numpy as np

        def vals(xs, dt):
            out_ = []
            for x in xs:
                v = model.eval(x, model_completion=True)
                out_.append((v.as_signed_long() if NP_DTYPES[dt][4] == 's' else v.as_long()) if dt != 'bool' else int(v.as_long() != 0))
            return out_
        va, vb = vals(xa, dta), vals(xb, dtb)
        if any(v >= 2 ** 63 for v in va + vb):
            return False, 'values from 2^63 on are not replayed (the JSON writer of the driver prints them as negative numbers)', {}
        prog = '%s %s %s %s merge' % (TOK[dta], fullnative.ints(va), TOK[dtb], fullnative.ints(vb))
        exp = np.concatenate([np.array(va, dtype=dta), np.array(vb, dtype=dtb)]).tolist()
        exp = [int(x) for x in exp]
        return akrun_check(prog, exp, 'concatenation of %s %s and %s %s' % (dta, va, dtb, vb))
    return mdischarge(nc.m, 'NumpyArray::mergemany %s + %s' % (dta, dtb), obls, [], replay=replay, prefer=[z3.ULT(x, 2 ** 63) if x.size() == 64 else z3.BoolVal(True) for x in xa + xb],
                      extra=dict(bounds='two one-dimensional arrays of %d values each, all values symbolic' % n))


def jobs_numpy_types(tier):
    pairs = list(INT_PROMOTION) if tier != 'quick' else [('uint32', 'int64'), ('int64', 'uint32'), ('uint16', 'int32'), ('uint8', 'int16'), ('int8', 'int64'), ('uint8', 'uint32'), ('bool', 'int64'), ('uint32', 'uint64')]
    return [(h_numpy_mergemany_types, p, 1800) for p in pairs]


# ------------------------------------------------------------------------------------------------ C12: counts that overflow a sizing formula
@guard
def h_index_alloc():
    """IndexOf<int64_t>(length) for any 64-bit length (a valid array can report a huge length without holding data: a RegularArray of size 0):
    either the constructor raises, or the buffer it allocates really holds `length` items - length * sizeof(item) must not wrap into a small
    allocation that kernels then overrun"""
    nc = NodeCtx(['IDX', 'UTL', 'KD'], [], unwind=8)
    nc.m.eng.stubs.update(nodeh.STRING_LENGTH_STUBS)
    nc.m.eng.stubs['_ZNSt7__cxx119to_stringEl'] = nodeh.s_some_string
    length = nc.m.bv('length')
    nc.m.record('idx', {})
    out = nc.m.call('_ZN7awkward7IndexOfIlEC2ElNS_6kernel3libE', [Ptr('idx', 0), length, z3.BitVecVal(0, 32)])
    obls = []
    p = nc.m.cell('idx', 8)
    if p is None:
        obls.append(('the constructor builds an index or raises', z3.Not(out.raised)))
    else:
        for g, q in nodeh.ptr_cases(p):
            ok = z3.And(g, z3.Not(out.raised))
            if q.obj is None:
                obls.append(('an index of a positive length has a buffer', z3.And(ok, length > 0)))
                continue
            cap = nc.m.mem.o[q.obj].cap
            obls.append(('the buffer holds `length` items (no wrap-around of length * 8)', z3.And(ok, z3.Or(length < 0, z3.ULT(cap, length)))))

    def replay(model, ent):
        n = model.eval(length, model_completion=True).as_signed_long()
        if n < 2 ** 40:
            return False, 'only lengths whose byte count wraps are replayed (others would really allocate)', {}
        prog = 'i64 0  regular 0 %d num 1' % (n - 1)
        kind, got = fullnative.akrun(prog)
        payload = dict(program=prog, native=[kind, str(got)[:200]])
        if kind == 'CRASH':
            return True, 'num(axis=1) of a RegularArray of size 0 and length %d (needs an Index64 of %d items): native library crashes: %s' % (n - 1, n, str(got)[:200]), payload
        return False, 'native library %s %s' % (kind, str(got)[:100]), payload
    return mdischarge(nc.m, 'IndexOf<int64_t>::IndexOf(length)', obls, [('a length that is refused', out.raised), ('a length that is accepted', z3.Not(out.raised))], replay=replay,
                      prefer=[length == 2 ** 61 + 2], extra=dict(bounds='any 64-bit length'))


# ------------------------------------------------------------------------------------------------ C03 / C06: UnmaskedArray passes reductions and sorts through
@guard
def h_unmasked_passthrough(method, n=3):
    """UnmaskedArray::reduce_next / sort_next / argsort_next: the node adds no missing value, so its content is handed the very same request
    (axis counter, starts, shifts, parents, group count, flags) over all n entries, and what the content answers is the answer"""
    nc = NodeCtx(['UMA', 'RA', 'LOA', 'NA', 'IA', 'IDX', 'CNT', 'UTL', 'KD', 'IDS'], [], unwind=14)
    seen = []
    ANS = z3.Function('ANSWER', z3.BitVecSort(64), z3.BitVecSort(64))
    kk = z3.BitVec('k!', 64)
    frag = {'reduce_next': '11reduce_nextERKNS_7ReducerEl', 'sort_next': '9sort_nextElRKNS_7IndexOfIlEES4_lbb', 'argsort_next': '12argsort_nextElRKNS_7IndexOfIlEES4_S4_lbb'}[method]

    def stub(eng, fr, ins, st, name, argv):
        nm, info = nc.content_info(argv[1], st, eng)
        seen.append(dict(pc=st.pc, info=info, args=tuple(argv[2:])))
        nc._ret(st, argv[0], nc.fresh_content(eng, st, info['length'], z3.Lambda([kk], ANS(kk)), derived='answer'))
        return None
    nc.m.eng.stubs['vf$slot%d' % nc.slot(frag)] = stub
    this, vals = build_unmasked(nc, n)

    def index64(name, count):
        d = nc.m.array(name + '_data', ('i', 64), max(1, count), const=True)
        cells = {}
        nc.index_cells(cells, 0, d, BV(0), BV(count))
        return nc.m.record(name, cells, const=True)
    starts, shifts, parents = index64('starts', 2), index64('shifts', n if method != 'sort_next' else 0), index64('parents', n)
    negaxis, outl = nc.m.bv('negaxis'), nc.m.bv('outlength')
    nc.m.assume(negaxis >= 1, negaxis <= 4, outl >= 0, outl <= 8)
    f1, f2 = nc.m.bv('flag1', 1), nc.m.bv('flag2', 1)
    nc.m.record('ret', {})
    if method == 'reduce_next':
        reducer = nc.m.record('reducer', {0: (NULL, 8)}, const=True)
        args = [reducer, negaxis, starts, shifts, parents, outl, f1, f2]
        sym = '_ZNK7awkward13UnmaskedArray11reduce_nextERKNS_7ReducerEl'
    elif method == 'sort_next':
        args = [negaxis, starts, parents, outl, f1, f2]
        sym = '_ZNK7awkward13UnmaskedArray9sort_nextEl'
    else:
        args = [negaxis, starts, shifts, parents, outl, f1, f2]
        sym = '_ZNK7awkward13UnmaskedArray12argsort_nextEl'
    cands = [f for mod_ in nc.m.eng.mods for f in mod_.func_src if f.startswith(sym)]
    out = nc.m.call(cands[0], [Ptr('ret', 0), this] + args)
    obls = [('%s does not raise' % method, out.raised), ('the content is asked', z3.Not(z3.Or([ob['pc'] for ob in seen] + [z3.BoolVal(False)])))]
    for ob in seen:
        g = ob['pc']
        obls.append(('the content handed on holds all %d entries' % n, z3.And(g, ob['info']['length'] != n)))
        for pos, (a, w) in enumerate(zip(ob['args'], args)):
            if isinstance(w, Ptr):
                same = z3.Or([gg for gg, qq in nodeh.ptr_cases(a) if qq.obj == w.obj] + [z3.BoolVal(False)])
                obls.append(('argument %d (an index / the reducer) is handed on as it came' % pos, z3.And(g, z3.Not(same))))
            else:
                a_ = a if a.size() == w.size() else z3.Extract(w.size() - 1, 0, a)
                obls.append(('argument %d is handed on unchanged' % pos, z3.And(g, a_ != w)))
    for g, res in nodeh.decode_cases(nc, out.mem, nc.m.cell('ret', 0)):
        if res is None:
            obls.append(('a result is returned', z3.And(g, z3.Not(out.raised))))
            continue
        d_ = res
        while d_['cls'] == 'unmasked':
            d_ = d_['content']
        obls.append(('the answer is what the content answered', z3.And(g, z3.BoolVal(d_['cls'] != 'opaque' or d_.get('derived') != 'answer'))))
    return mdischarge(nc.m, 'UnmaskedArray::%s passes through' % method, obls, [], replay=None, extra=dict(bounds='%d entries; every argument symbolic' % n))


def jobs_unmasked_passthrough(methods):
    return [(h_unmasked_passthrough, (m_,), 900) for m_ in methods]


# ------------------------------------------------------------------------------------------------ C03: reducing through a record
@guard
def h_record_reduce(nfields, length, method='reduce_next'):
    """RecordArray::reduce_next (method: also sort_next / argsort_next, which treat fields the same way; their answers keep the number of
    records): every field is reduced on its own with the very same request - over exactly the first `length` entries of its
    content (a field content may be longer than the record array: the groups in `parents` describe `length` entries) - and the answer is a
    record array of `outlength` records holding, field by field, what each content answered"""
    nc = NodeCtx(['REC', 'IA', 'IDX', 'CNT', 'UTL', 'KD', 'IDS'], [], unwind=max(12, 3 * nfields + 10))
    seen = []
    kk = z3.BitVec('k!', 64)
    BASE = 1 << 32
    ANS = z3.Function('ANSWER', z3.BitVecSort(64), z3.BitVecSort(64))

    def stub(eng, fr, ins, st, name, argv):
        nm, info = nc.content_info(argv[1], st, eng)
        first = z3.simplify(z3.Select(info['atoms'], BV(0)))
        seen.append(dict(pc=st.pc, info=info, args=tuple(argv[2:])))
        anslen = argv[7] if method == 'reduce_next' else info['length']
        nc._ret(st, argv[0], nc.fresh_content(eng, st, anslen, z3.Lambda([kk], ANS(first + kk)), derived='answer'))
        return None
    frag_ = {'reduce_next': '11reduce_nextERKNS_7ReducerEl', 'sort_next': '9sort_nextElRKNS_7IndexOfIlEES4_lbb', 'argsort_next': '12argsort_nextElRKNS_7IndexOfIlEES4_S4_lbb'}[method]
    nc.m.eng.stubs['vf$slot%d' % nc.slot(frag_)] = stub
    this, vals, lens = build_record(nc, nfields, length)

    def index64(name, count):
        d = nc.m.array(name + '_data', ('i', 64), max(1, count), const=True)
        cells = {}
        nc.index_cells(cells, 0, d, BV(0), BV(count))
        return nc.m.record(name, cells, const=True)
    starts, shifts, parents = index64('starts', 2), index64('shifts', 0), index64('parents', length)
    negaxis, outl = nc.m.bv('negaxis'), nc.m.bv('outlength')
    nc.m.assume(negaxis >= 1, negaxis <= 4, outl >= 0, outl <= 3)
    f1, f2 = nc.m.bv('maskflag', 1), nc.m.bv('keepdims', 1)
    reducer = nc.m.record('reducer', {0: (NULL, 8)}, const=True)
    if method == 'reduce_next':
        args = [reducer, negaxis, starts, shifts, parents, outl, f1, f2]
        sym_ = '_ZNK7awkward11RecordArray11reduce_nextERKNS_7ReducerEl'
    elif method == 'sort_next':
        args = [negaxis, starts, parents, outl, f1, f2]
        sym_ = '_ZNK7awkward11RecordArray9sort_nextEl'
    else:
        args = [negaxis, starts, shifts, parents, outl, f1, f2]
        sym_ = '_ZNK7awkward11RecordArray12argsort_nextEl'
    nc.m.record('ret', {})
    cands = [f for mod_ in nc.m.eng.mods for f in mod_.func_src if f.startswith(sym_)]
    out = nc.m.call(cands[0], [Ptr('ret', 0), this] + args)
    obls = [('%s does not raise' % method, out.raised)] + ([('every field content is asked', z3.BoolVal(len(seen) != nfields))] if length or method == 'reduce_next' else [])
    for k, ob in enumerate(seen):
        g = ob['pc']
        obls.append(('field %d is reduced over exactly the %d entries of the record array' % (k, length), z3.And(g, ob['info']['length'] != length)))
        if length:
            obls.append(('field %d: the entries handed on start at its first one' % k, z3.And(g, z3.Select(ob['info']['atoms'], BV(0)) != k * BASE)))
        for pos, (a, w) in enumerate(zip(ob['args'], args)):
            if isinstance(w, Ptr):
                same = z3.Or([gg for gg, qq in nodeh.ptr_cases(a) if qq.obj == w.obj] + [z3.BoolVal(False)])
                obls.append(('field %d: argument %d (an index / the reducer) is handed on as it came' % (k, pos), z3.And(g, z3.Not(same))))
            else:
                a_ = a if a.size() == w.size() else z3.Extract(w.size() - 1, 0, a)
                obls.append(('field %d: argument %d is handed on unchanged' % (k, pos), z3.And(g, a_ != w)))
    for g, res in nodeh.decode_cases(nc, out.mem, nc.m.cell('ret', 0)):
        if res is None:
            obls.append(('a result is returned', z3.And(g, z3.Not(out.raised))))
            continue
        if res['cls'] != 'record' or len(res['contents']) != nfields:
            obls.append(('the answer is a record array with the same fields', g)); continue
        obls.append(('the answer has one record per group', z3.And(g, res['length'] != outl)) if method == 'reduce_next' else ('the answer has as many records as before', z3.And(g, res['length'] != length)))
        for k, c in enumerate(res['contents']):
            ok_ = c['cls'] == 'opaque' and c.get('derived') == 'answer'
            obls.append(('field %d of the answer is what its content answered' % k, z3.And(g, z3.BoolVal(not ok_))))
            if ok_ and length:
                obls.append(('field %d of the answer comes from field %d' % (k, k), z3.And(g, outl > 0 if method == 'reduce_next' else z3.BoolVal(True), z3.Select(c['atoms'], BV(0)) != ANS(BV(k * BASE)))))

    def replay(model, ent):
        if method != 'reduce_next':
            return False, 'sorting records is replayed through the reduction only', {}
        if nfields == 0:
            return False, 'records without fields are not replayed', {}
        # field k: length + 2 numbers (longer than the record array), all records in one group: sum over exactly the first `length`
        prog, exp = '', {}
        for k in range(nfields):
            vals_ = [10 * k + i + 1 for i in range(length + 2)]
            # an option-type field (nothing missing): that class sizes its work by its own length, so an untrimmed field shows
            prog += 'i64 %s option64 %s ' % (fullnative.ints(vals_), fullnative.ints(range(length + 2)))
            exp[str(k)] = sum(vals_[:length])
        prog += 'tuple %d %d regular %d 1 reduce sum 1 0 0' % (nfields, length, length) if length else 'tuple %d 0 regular 0 1 reduce sum 1 0 0' % nfields
        return akrun_check(prog, [exp], 'sum(axis=1) over one list of %d records whose field contents are 2 entries longer' % length)
    return mdischarge(nc.m, 'RecordArray::%s, %d fields, %d records' % (method, nfields, length), obls, [('a field content longer than the record array', lens[0] > length)] if nfields else [], replay=(replay if method == 'reduce_next' else None),
                      prefer=[x <= length + 2 for x in lens], extra=dict(bounds='%d fields, %d records (case split); field content lengths, every argument symbolic' % (nfields, length)))


def jobs_record_reduce(tier):
    q = [(2, 2), (1, 0)] if tier == 'quick' else [(2, 2), (1, 0), (3, 1), (1, 3), (0, 2)]
    return [(h_record_reduce, a, 900) for a in q]


def jobs_record_sort(tier):
    q = [(2, 2), (1, 1)] if tier == 'quick' else [(2, 2), (1, 1), (3, 1), (1, 3), (2, 0)]
    return [(h_record_reduce, a + (m_,), 900) for a in q for m_ in ('sort_next', 'argsort_next')]
