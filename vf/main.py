"""./vcheck <property> [--tier quick|thorough] [--replay path]"""
import sys, os, importlib, json, threading
sys.setrecursionlimit(200000)
threading.stack_size(512 * 1024 * 1024)

LEVELS = {'C13': 'translation_validation'}      # all others: model_checking (bounded)


def run(prop, tier):
    from . import runner, build
    os.environ['VERIF_TIER'] = tier
    mod = importlib.import_module('vf.%s' % prop.lower())
    rep = runner.Report(prop, LEVELS.get(prop, 'model_checking'))
    cov = mod.main(rep, tier)
    code = rep.finish(cov, getattr(mod, 'ASSUMPTIONS', []))
    build.clean_cache()
    return code


def replay(prop, path):
    """re-run, against the current /repo, the harness unit a stored counterexample belongs to, and show the stored counterexample"""
    from . import runner
    payload = json.load(open(path))
    unit = payload.get('unit', '')
    print('stored counterexample for %s unit %s:' % (prop, unit))
    print(json.dumps({k: v for k, v in payload.items() if k in ('obligation', 'why', 'case', 'inputs')}, indent=1, default=str)[:3000])
    os.environ['VERIF_TIER'] = os.environ.get('VERIF_TIER', 'quick')
    if prop == 'C13':
        os.environ['VERIF_ONLY'] = unit
        return run(prop, os.environ['VERIF_TIER'])
    mod = importlib.import_module('vf.%s' % prop.lower())
    jobs = [j for j in mod.jobs('thorough') + mod.jobs('quick') if all(str(a) in unit for a in j[1] if not isinstance(a, bool))]
    seen, sel = set(), []
    for j in jobs:
        k = (j[0].__name__, repr(j[1]))
        if k not in seen:
            seen.add(k); sel.append(j)
    res = [r for r in runner.run_tasks(sel[:40]) if r.get('unit') == unit] if sel else []
    bad = [r for r in res if r.get('status') == 'violation']
    for r in bad:
        for v in r['violations']:
            print('REPRODUCED on the current tree: %s - %s' % (v['obligation']['name'], v['why']))
    if not res:
        print('unit not found among the harness jobs; nothing re-run')
        return 3
    if not bad:
        print('not reproduced on the current tree (status: %s)' % ', '.join(r.get('status', '?') for r in res))
    return 1 if bad else 0


def main(argv):
    prop = argv[1]
    tier = os.environ.get('VERIF_TIER', 'quick')
    if '--tier' in argv:
        tier = argv[argv.index('--tier') + 1]
    if '--replay' in argv:
        return replay(prop, argv[argv.index('--replay') + 1])
    out = {}
    t = threading.Thread(target=lambda: out.setdefault('code', run(prop, tier)))
    t.start(); t.join()
    return out.get('code', 3)


if __name__ == '__main__':
    sys.exit(main(sys.argv))
