"""./vcheck <property> [--tier quick|thorough] [--replay path]"""
import sys, os, importlib, json, threading
sys.setrecursionlimit(200000)
threading.stack_size(512 * 1024 * 1024)

LEVELS = {'C13': 'translation_validation'}      # all others: model_checking (bounded)


def run(prop, tier):
    from . import runner, build
    os.environ['VERIF_TIER'] = tier
    mod = importlib.import_module('vf.%s' % prop.lower())
    rep = runner.Report(prop, LEVELS.get(prop, 'model_checking'))
    cov = mod.main(rep, tier)
    code = rep.finish(cov, getattr(mod, 'ASSUMPTIONS', []))
    build.clean_cache()
    return code


def main(argv):
    prop = argv[1]
    tier = os.environ.get('VERIF_TIER', 'quick')
    if '--tier' in argv:
        tier = argv[argv.index('--tier') + 1]
    if '--replay' in argv:
        path = argv[argv.index('--replay') + 1]
        mod = importlib.import_module('vf.%s' % prop.lower())
        return mod.replay_file(path)
    out = {}
    t = threading.Thread(target=lambda: out.setdefault('code', run(prop, tier)))
    t.start(); t.join()
    return out.get('code', 3)


if __name__ == '__main__':
    sys.exit(main(sys.argv))
