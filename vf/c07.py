"""C07: combinations enumerate exactly the itertools tuples, in order (sizing kernel -> allocation -> fill kernel)."""
import itertools, math
import z3
from . import kspec, runner
from .oracle import Harness, discharge, guard, summarize
from .hlib import BV, decl_lists

ASSUMPTIONS = [
    'pipeline wired as ListArrayOf<T>::combinations / ListOffsetArrayOf<T>::combinations: combinations_length sizes n carry '
    'buffers of totallen entries and scratch toindex/fromindex of n entries, then ListArray_combinations fills them',
    'RegularArray: the fill kernel with capacity C(size, n)*length as RegularArray::combinations computes it in C++ (that arithmetic '
    'itself is outside the claim), skipped by the caller when size == 0',
    'oracle: itertools.combinations / combinations_with_replacement tables per list length, offset by the list start',
    'bounds: n in 1..4, lists <= 2 (quick) / 3 (thorough), list length <= 4, list lengths case-split, starts symbolic in the full index type',
    'outside: ak.cartesian/argcartesian (Python), records/options as element types, axis plumbing',
]


def ctype_w(w):
    return {'32': 'int32_t', 'U32': 'uint32_t', '64': 'int64_t'}[w]


def count(l, n, repl):
    return math.comb(l + n - 1, n) if repl else math.comb(l, n)


@guard
def h_list(w, n, repl, lens):
    ct = ctype_w(w)
    N = len(lens)
    c1, c2 = 'awkward_ListArray%s_combinations_length_64' % w, 'awkward_ListArray%s_combinations_64' % w
    tot = sum(count(l, n, repl) for l in lens)
    h = Harness([c1, c2], unwind=max(12, tot + max(lens + (0,)) + n + 6), max_instrs=3000000)
    h.scalar('length', 'int64_t', N); h.scalar('n', 'int64_t', n); h.scalar('replacement', 'bool', repl)
    decl_lists(h, N, 4, ct, starts='starts', stops='stops', lens=lens)
    h.arr('totallen', 'int64_t', 1); h.arr('tooffsets', 'int64_t', N + 1)
    h.kcall(c1, [('buf', 'totallen'), ('buf', 'tooffsets'), 'n', 'replacement', ('buf', 'starts'), ('buf', 'stops'), 'length'])
    tl = h.out('totallen', 0)
    carries = []
    for j in range(n):
        h.arr('carry%d' % j, 'int64_t', tl, cap_c='totallen[0]')
        carries.append('carry%d' % j)
    h.arr('toindex', 'int64_t', n); h.arr('fromindex', 'int64_t', n)
    h.kcall(c2, [('ptrs', 'int64_t', carries), ('buf', 'toindex'), ('buf', 'fromindex'), 'n', 'replacement', ('buf', 'starts'), ('buf', 'stops'), 'length'])

    def oracle(io):
        out = [('no error', z3.Or(io.err(0), io.err(1))), ('tooffsets[0] = 0', io.y('tooffsets', 0) != 0)]
        gen = itertools.combinations_with_replacement if repl else itertools.combinations
        base = 0
        for i, l in enumerate(lens):
            tuples = list(gen(range(l), n))
            st = io.x('starts', i)
            for p, tup in enumerate(tuples):
                for j in range(n):
                    out.append(('list %d tuple %d slot %d = start + %d' % (i, p, j, tup[j]), io.y('carry%d' % j, base + p) != st + tup[j]))
            base += len(tuples)
            out.append(('tooffsets[%d] = cumulative binomial count' % (i + 1), io.y('tooffsets', i + 1) != base))
        out.append(('totallen = total number of tuples', io.y('totallen', 0) != base))
        for j in range(n):
            out.append(('carry %d filled exactly to totallen' % j, io.y('toindex', j) != base))
        return out
    return discharge(h, 'ListArray%s combinations n=%d repl=%d lens=%s' % (w, n, repl, lens), oracle, [],
                     extra=dict(bounds=dict(n=n, replacement=repl, lens=list(lens))))


def regular_scratch_capacity(n, repl, size):
    """capacity of the toindex/fromindex scratch buffers as RegularArray::combinations allocates them: the size expression is
    read from the C++ source on every run (DESIGN 2.5 P: source-extracted capacities)"""
    import os, re
    from .build import REPO
    txt = open(os.path.join(REPO, 'src/libawkward/array/RegularArray.cpp')).read()
    i = txt.index('RegularArray::combinations(')
    body = txt[i:i + 6000]
    m = re.search(r'toindex\s*=\s*kernel::malloc<int64_t>\([^,]*,[^\n]*\n?\s*([\w_]+)\s*\*\s*\(int64_t\)sizeof\(int64_t\)', body)
    if not m:
        return None, 'allocation of toindex not recognised in RegularArray::combinations'
    var = m.group(1)
    if var == 'n':
        return n, 'n'
    if var == 'size':
        return size + (n - 1 if repl else 0), 'size (= size_ + n - 1 with replacement)'
    if var == 'size_':
        return size, 'size_'
    return None, 'allocation size variable %s not understood' % var


@guard
def h_regular(n, repl, size, length):
    cname = 'awkward_RegularArray_combinations_64'
    scap, sdesc = regular_scratch_capacity(n, repl, size)
    if scap is None:
        return dict(unit='%s n=%d repl=%d size=%d length=%d' % (cname, n, repl, size, length), status='unsupported', detail=sdesc,
                    obligations=[], twins={}, violations=[], unreproduced=[])
    tot = count(size, n, repl) * length
    h = Harness(cname, unwind=max(12, tot + size + n + 6), max_instrs=3000000)
    h.scalar('n', 'int64_t', n); h.scalar('replacement', 'bool', repl); h.scalar('size', 'int64_t', size); h.scalar('length', 'int64_t', length)
    carries = []
    for j in range(n):
        h.arr('carry%d' % j, 'int64_t', tot)
        carries.append('carry%d' % j)
    h.arr('toindex', 'int64_t', scap); h.arr('fromindex', 'int64_t', scap)       # capacity expression from RegularArray.cpp
    h.kcall(cname, [('ptrs', 'int64_t', carries), ('buf', 'toindex'), ('buf', 'fromindex'), 'n', 'replacement', 'size', 'length'])

    def oracle(io):
        out = [('no error', io.err())]
        gen = itertools.combinations_with_replacement if repl else itertools.combinations
        tuples = list(gen(range(size), n))
        for i in range(length):
            for p, tup in enumerate(tuples):
                for j in range(n):
                    out.append(('row %d tuple %d slot %d' % (i, p, j), io.y('carry%d' % j, i * len(tuples) + p) != i * size + tup[j]))
        for j in range(n):
            out.append(('carry %d filled exactly' % j, io.y('toindex', j) != len(tuples) * length))
        return out
    return discharge(h, '%s n=%d repl=%d size=%d length=%d' % (cname, n, repl, size, length), oracle, [],
                     extra=dict(bounds=dict(n=n, replacement=repl, size=size, length=length)))


@guard
def h_count(w, n, repl, l):
    """combinations_length alone for longer lists (the binomial arithmetic): one list of concrete length l at a symbolic start"""
    ct = ctype_w(w)
    c1 = 'awkward_ListArray%s_combinations_length_64' % w
    h = Harness(c1, unwind=n + 8)
    h.scalar('length', 'int64_t', 1); h.scalar('n', 'int64_t', n); h.scalar('replacement', 'bool', repl)
    decl_lists(h, 1, l, ct, starts='starts', stops='stops', lens=(l,))
    h.arr('totallen', 'int64_t', 1); h.arr('tooffsets', 'int64_t', 2)
    h.kcall(c1, [('buf', 'totallen'), ('buf', 'tooffsets'), 'n', 'replacement', ('buf', 'starts'), ('buf', 'stops'), 'length'])

    def oracle(io):
        c = count(l, n, repl)
        return [('no error', io.err()), ('number of tuples is the binomial coefficient', io.y('totallen', 0) != c),
                ('offsets [0, count]', z3.Or(io.y('tooffsets', 0) != 0, io.y('tooffsets', 1) != c))]
    return discharge(h, 'ListArray%s combinations_length n=%d repl=%d len=%d' % (w, n, repl, l), oracle, [], extra=dict(bounds=dict(n=n, l=l)))


def jobs(tier):
    js = []
    for w in (('64',) if tier == 'quick' else ('64', '32', 'U32')):
        for n in range(1, 6):
            for repl in (False, True):
                for l in range(5, 33 if tier == 'quick' else 65):
                    js.append((h_count, (w, n, repl, l), 300))
    NL = 2 if tier == 'quick' else 3
    Lmax = 4
    for w in (('64', 'U32') if tier == 'quick' else ('64', '32', 'U32')):
        for n in range(1, 5):
            for repl in (False, True):
                for N in range(0, NL + 1):
                    lensets = list(itertools.product(range(Lmax + 1), repeat=N))
                    if N == 3:
                        lensets = [l for l in lensets if max(l) <= 3]
                    if tier == 'quick' and N == 2 and w != '64':
                        lensets = [l for l in lensets if l[0] <= l[1]]
                    for lens in lensets:
                        if sum(count(l, n, repl) for l in lens) > 80:
                            continue
                        js.append((h_list, (w, n, repl, lens), 900))
    for n in range(1, 5):
        for repl in (False, True):
            for size in range(1, 5):
                for length in range(0, 3):
                    if count(size, n, repl) * length <= 80:
                        js.append((h_regular, (n, repl, size, length), 900))
    return js


def main(report, tier):
    from . import mnode
    return summarize(report, runner.run_tasks(jobs(tier) + mnode.jobs_for('C07', tier)), 'C07')
