"""C11: the validity kernels report an error exactly for arrays that break a documented structural rule
(both directions, first offender reported), for arbitrary - valid and invalid - buffer contents."""
import z3
from . import kspec, runner
from .oracle import Harness, discharge, guard, summarize
from .kharness import widen

ASSUMPTIONS = [
    'documented rules transcribed from docs-sphinx/ak.layout.{ListArray,IndexedArray,IndexedOptionArray,UnionArray}.rst',
    'buffer capacities are exactly the documented extents (starts/stops/index/tags: length; lencontents: numcontents)',
    'bounds: length <= N (quick 3, thorough 4), numcontents <= 3; all element values and lencontent unconstrained in their C type',
    'LLVM IR from clang++-14 -O1 is the semantics of the kernel (UB-exploiting folds included)',
]

KSLICENONE = 2 ** 63 - 1


def first_bad(bads):
    """-> (any bad, index of first bad as BV64)"""
    idx = z3.BitVecVal(-1, 64)
    for i in reversed(range(len(bads))):
        idx = z3.If(bads[i], z3.BitVecVal(i, 64), idx)
    return z3.Or(bads) if bads else z3.BoolVal(False), idx


@guard
def h_listarray(cname, N):
    sp = kspec.spec_by_name()[cname]
    ct = sp.args[0].ctype
    h = Harness(cname, unwind=N + 3)
    h.scalar('length', 'int64_t'); h.scalar('lencontent', 'int64_t')
    L, LC = h.scalars['length'][0], h.scalars['lencontent'][0]
    h.assume(L >= 0, L <= N, LC >= 0)
    h.arr('starts', ct, L, const=True); h.arr('stops', ct, L, const=True)
    h.kcall(cname, [('buf', 'starts'), ('buf', 'stops'), 'length', 'lencontent'])

    def oracle(io):
        L, LC = io.sc('length'), io.sc('lencontent')
        bads = []
        for i in range(N):
            a, b = io.x('starts', i), io.x('stops', i)
            bads.append(z3.And(i < L, a != b, z3.Or(a > b, a < 0, b > LC)))
        anyb, fi = first_bad(bads)
        out = [('error iff a documented ListArray rule is broken', io.err() != anyb)]
        if not io.concrete:
            ident = h.err_field(16)
            out.append(('reported position is the first offender', z3.And(anyb, ident != fi)))
        return out
    tw = [('valid array reachable', z3.And(z3.Not(h.errs[-1][2]), L == N)), ('invalid array reachable', h.errs[-1][2])]
    return discharge(h, cname, oracle, tw, extra=dict(bounds=dict(N=N)))


@guard
def h_indexed(cname, N):
    sp = kspec.spec_by_name()[cname]
    ct = sp.args[0].ctype
    h = Harness(cname, unwind=N + 3)
    for n, t in (('length', 'int64_t'), ('lencontent', 'int64_t'), ('isoption', 'bool')):
        h.scalar(n, t)
    L, LC = h.scalars['length'][0], h.scalars['lencontent'][0]
    h.assume(L >= 0, L <= N, LC >= 0)
    h.arr('index', ct, L, const=True)
    h.kcall(cname, [('buf', 'index'), 'length', 'lencontent', 'isoption'])

    def oracle(io):
        L, LC, opt = io.sc('length'), io.sc('lencontent'), io.sc('isoption')
        bads = []
        for i in range(N):
            x = io.x('index', i)
            bads.append(z3.And(i < L, z3.Or(x >= LC, z3.And(z3.Not(opt), x < 0))))
        anyb, fi = first_bad(bads)
        out = [('error iff index >= len(content) or (not option and index < 0)', io.err() != anyb)]
        if not io.concrete:
            out.append(('reported position is the first offender', z3.And(anyb, h.err_field(16) != fi)))
        return out
    tw = [('valid reachable', z3.And(z3.Not(h.errs[-1][2]), L == N)), ('invalid reachable', h.errs[-1][2]),
          ] + ([('missing value accepted for option', z3.And(z3.Not(h.errs[-1][2]), L >= 1, h.init('index', 0) < 0))] if kspec.CT[ct][2] else [])
    return discharge(h, cname, oracle, tw, extra=dict(bounds=dict(N=N)))


@guard
def h_union(cname, N, NC=3):
    sp = kspec.spec_by_name()[cname]
    tt, it = sp.args[0].ctype, sp.args[1].ctype
    h = Harness(cname, unwind=N + 3)
    h.scalar('length', 'int64_t'); h.scalar('numcontents', 'int64_t')
    L, K = h.scalars['length'][0], h.scalars['numcontents'][0]
    h.assume(L >= 0, L <= N, K >= 0, K <= NC)
    h.arr('tags', tt, L, const=True); h.arr('index', it, L, const=True); h.arr('lencontents', 'int64_t', K, const=True)
    for k in range(NC):
        h.assume(z3.Implies(k < K, h.init('lencontents', k) >= 0))
    h.kcall(cname, [('buf', 'tags'), ('buf', 'index'), 'length', 'numcontents', ('buf', 'lencontents')])

    def oracle(io):
        L, K = io.sc('length'), io.sc('numcontents')
        bads = []
        for i in range(N):
            t, x = io.x('tags', i), io.x('index', i)
            lc = z3.BitVecVal(0, 64)
            for k in range(NC):
                lc = z3.If(t == k, io.x('lencontents', k), lc)
            bads.append(z3.And(i < L, z3.Or(t < 0, x < 0, t >= K, x >= lc)))
        anyb, fi = first_bad(bads)
        out = [('error iff tag or index out of range', io.err() != anyb)]
        if not io.concrete:
            out.append(('reported position is the first offender', z3.And(anyb, h.err_field(16) != fi)))
        return out
    tw = [('valid reachable', z3.And(z3.Not(h.errs[-1][2]), L == N)), ('invalid reachable', h.errs[-1][2])]
    return discharge(h, cname, oracle, tw, extra=dict(bounds=dict(N=N, numcontents=NC)))


def jobs(tier):
    N = 3 if tier == 'quick' else 4
    js = []
    K = kspec.by_name()
    for s in K['awkward_ListArray_validity'].specs:
        js.append((h_listarray, (s.name, N), 600))
    for s in K['awkward_IndexedArray_validity'].specs:
        js.append((h_indexed, (s.name, N), 600))
    for s in K['awkward_UnionArray_validity'].specs:
        js.append((h_union, (s.name, N), 600))
    return js


def main(report, tier):
    from . import closure, mnode
    js = jobs(tier) + closure.jobs(tier) + mnode.jobs_for('C11', tier)
    results = runner.run_tasks(js)
    return summarize(report, results, 'C11')
