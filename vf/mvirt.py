"""C18, lazy arrays (M-harness): ArrayGenerator::generate_and_check with an opaque generator, content and forms - the declared length and
form are enforced, and a rejected generation leaves no trace (the inferred form is only set by an accepted one)."""
import z3
from . import runner, nodeh
from .nodeh import BV, SRC, COMMON_STUBS
from .mharness import MCtx, mdischarge, module_of
from .cpp01 import vtable_slots
from .oracle import guard
from .llbmc import Ptr, NULL, Unsupported, ptr_cases

AG = 'src/libawkward/virtual/ArrayGenerator.cpp'

NATIVE = r'''
#include <cstdio>
#include <cstdlib>
#include <stdexcept>
#include "awkward/virtual/ArrayGenerator.h"
#include "awkward/array/NumpyArray.h"
#include "awkward/array/EmptyArray.h"
#include "awkward/Index.h"
using namespace awkward;
class Gen : public ArrayGenerator {
public:
  ContentPtr out;
  Gen(const FormPtr& form, int64_t length, const ContentPtr& o): ArrayGenerator(form, length), out(o) { }
  const ContentPtr generate() const override { return out; }
  bool inferred() const { return inferred_form_.get() != nullptr; }
  void caches(std::vector<ArrayCachePtr>&) const override { }
  const std::string tostring_part(const std::string&, const std::string&, const std::string&) const override { return ""; }
  const std::shared_ptr<ArrayGenerator> shallow_copy() const override { return std::make_shared<Gen>(form_, length_, out); }
  const std::shared_ptr<ArrayGenerator> with_form(const FormPtr& f) const override { return std::make_shared<Gen>(f, length_, out); }
  const std::shared_ptr<ArrayGenerator> with_length(int64_t l) const override { return std::make_shared<Gen>(form_, l, out); }
  bool referentially_equal(const std::shared_ptr<ArrayGenerator>&) const override { return false; }
};
int main(int argc, char** argv) {
  // argv: declared_length generated_length declare_form(0/1) form_matches(0/1)
  int64_t dlen = atoll(argv[1]), glen = atoll(argv[2]); bool hasform = atoi(argv[3]) != 0, match = atoi(argv[4]) != 0;
  Index64 idx(glen); for (int64_t i = 0; i < glen; i++) idx.data()[i] = i;
  ContentPtr out = std::make_shared<NumpyArray>(idx);
  FormPtr declared(nullptr);
  if (hasform) declared = match ? out.get()->form(true) : std::make_shared<EmptyArray>(Identities::none(), util::Parameters()).get()->form(true);
  Gen g(declared, dlen, out);
  bool raised = false;
  try { g.generate_and_check(); } catch (std::invalid_argument& e) { raised = true; }
  printf("{\"raised\": %d, \"inferred_set\": %d}\n", (int)raised, (int)g.inferred());
  fflush(stdout); _Exit(0);
}
'''


def native_generate(dlen, glen, hasform, match):
    from . import fullnative, build
    import subprocess, os, json, hashlib
    # linked against the whole natively built library (NumpyArray / forms are needed)
    exe = fullnative.link_driver(NATIVE, 'gen')
    r = subprocess.run([exe, str(dlen), str(glen), str(int(hasform)), str(int(match))], capture_output=True, text=True, timeout=30,
                       env=dict(os.environ, ASAN_OPTIONS='detect_leaks=0', UBSAN_OPTIONS='halt_on_error=1:exitcode=87'), errors='replace')
    try:
        return json.loads(r.stdout.strip().splitlines()[-1])
    except (ValueError, IndexError):
        return dict(outcome='crash(%d)' % r.returncode, log=r.stderr[-300:])


@guard
def h_generate_and_check(hasform):
    gslots, gn = vtable_slots(module_of(AG), 'N7awkward14SliceGeneratorE')
    cslots, cn = vtable_slots(module_of(SRC['EA']), 'N7awkward10EmptyArrayE')
    fslots, fnn = vtable_slots(module_of(SRC['EA']), 'N7awkward9EmptyFormE')

    def find(slots, frag):
        for s, k in slots.items():
            if frag in s:
                return k
        raise Unsupported('vtable slot %s not found' % frag)
    k_gen, k_len, k_form, k_equal = find(gslots, '8generateEv'), find(cslots, '6lengthEv'), find(cslots, '4formEb'), find(fslots, '5equalERKSt10shared_ptrINS_4FormEEbbbb')
    glen, dlen = z3.BitVec('glen', 64), z3.BitVec('dlen', 64)
    formok = z3.Bool('form_matches')

    def ret_ptr(st, sret, p):
        rec = st.mem.o[sret.obj]
        rec.cells[sret.off] = (p, 8)
        rec.cells[sret.off + 8] = (NULL, 8)

    def s_generate(eng, fr, ins, st, name, argv):
        ret_ptr(st, argv[0], Ptr('generated', 0))
        return None

    def s_form(eng, fr, ins, st, name, argv):
        ret_ptr(st, argv[0], Ptr('genform', 0))
        return None
    stubs = dict(COMMON_STUBS)
    stubs.update({'vf$g%d' % k_gen: s_generate, 'vf$c%d' % k_len: lambda *a: glen, 'vf$c%d' % k_form: s_form,
                  'vf$f%d' % k_equal: lambda *a: z3.If(formok, z3.BitVecVal(1, 1), z3.BitVecVal(0, 1)),
                  'vf$f*': nodeh.s_empty_string,
                  '_ZNSt7__cxx1112basic_stringIcSt11char_traitsIcESaIcEEC1EPKcRKS3_': nodeh.s_empty_string, '_ZNSt7__cxx1112basic_stringIcSt11char_traitsIcESaIcEEC2EPKcRKS3_': nodeh.s_empty_string,
                  '_ZStplIcSt11char_traitsIcESaIcEENSt7__cxx1112basic_stringIT_T0_T1_EE*': nodeh.s_empty_string, '_ZNSt7__cxx119to_stringEl': nodeh.s_empty_string,
                  '_ZNSt16invalid_argumentC1ERKNSt7__cxx1112basic_stringIcSt11char_traitsIcESaIcEEE': lambda *a: None})
    m = MCtx([AG], unwind=6, stubs=stubs)
    m.assume(glen >= 0, glen <= 2 ** 40, dlen >= -1, dlen <= 2 ** 40)
    m.record('gvt', {8 * j: (Ptr(('func', 'vf$g%d' % j), 0), 8) for j in range(gn)}, const=True)
    m.record('cvt', {8 * j: (Ptr(('func', 'vf$c%d' % j), 0), 8) for j in range(cn)}, const=True)
    m.record('fvt', {8 * j: (Ptr(('func', 'vf$f%d' % j), 0), 8) for j in range(fnn)}, const=True)
    m.record('generated', {0: (Ptr('cvt', 0), 8)}, const=True)
    m.record('genform', {0: (Ptr('fvt', 0), 8)}, const=True)
    m.record('declform', {0: (Ptr('fvt', 0), 8)}, const=True)
    m.record('oldform', {0: (Ptr('fvt', 0), 8)}, const=True)
    this = m.record('gen', {0: (Ptr('gvt', 0), 8), 8: (Ptr('declform', 0) if hasform else NULL, 8), 16: (NULL, 8), 24: (Ptr('oldform', 0), 8), 32: (NULL, 8), 40: (dlen, 8)})
    m.record('ret', {})
    out = m.call('_ZN7awkward14ArrayGenerator18generate_and_checkEv', [Ptr('ret', 0), this])
    short = z3.And(dlen >= 0, dlen > glen)
    bad = z3.Or(short, z3.Not(formok)) if hasform else short
    inferred = m.cell('gen', 24)

    def is_obj(p, name):
        return z3.Or([g for g, q in ptr_cases(p) if q.obj == name] + [z3.BoolVal(False)])
    obls = [('raises exactly when the generated array is shorter than declared%s' % (' or its form differs from the declared form' if hasform else ''), z3.simplify(out.raised) != bad),
            ('a rejected generation leaves the inferred form as it was', z3.And(out.raised, z3.Not(is_obj(inferred, 'oldform'))))]
    if hasform:
        obls.append(('with a declared form nothing is inferred', z3.Not(is_obj(inferred, 'oldform'))))
    else:
        obls.append(('an accepted generation records the generated form as the inferred form', z3.And(z3.Not(out.raised), z3.Not(is_obj(inferred, 'genform')))))
    obls.append(('an accepted generation returns the generated array', z3.And(z3.Not(out.raised), z3.Not(is_obj(m.cell('ret', 0), 'generated')))))

    def replay(model, ent):
        ev = lambda e: model.eval(e, model_completion=True)
        D, G, FM = ev(dlen).as_signed_long(), ev(glen).as_signed_long(), z3.is_true(ev(formok))
        if G > 1000:
            return False, 'generated length too large to replay', dict(dlen=D, glen=G)
        res = native_generate(D, G, hasform, FM)
        want = (D >= 0 and D > G) or (hasform and not FM)
        payload = dict(declared_length=D, generated_length=G, declared_form=hasform, form_matches=FM, native=res)
        # native twin starts with no inferred form: a rejected generation must leave it unset
        if res.get('raised') != int(want) or (want and res.get('inferred_set') != 0) or (not want and not hasform and res.get('inferred_set') != 1):
            return True, 'generator declared length %d%s, generated length %d, form %s: native %s; expected %s' % (
                D, ' and a form' if hasform else '', G, 'matches' if FM else 'differs', res, 'an error and no inferred form' if want else 'acceptance'), payload
        return False, 'native generator agrees (%s)' % res, payload
    return mdischarge(m, 'ArrayGenerator::generate_and_check %s' % ('with a declared form' if hasform else 'without a declared form'), obls,
                      [('rejected', out.raised), ('accepted', z3.Not(out.raised))], replay=replay, prefer=[glen <= 5, dlen <= 8],
                      extra=dict(bounds='any declared / generated length <= 2^40; form comparison outcome symbolic'))


def jobs(tier):
    return [(h_generate_and_check, (False,), 300), (h_generate_and_check, (True,), 300)]
