"""C18, lazy arrays (M-harness): ArrayGenerator::generate_and_check with an opaque generator, content and forms - the declared length and
form are enforced, and a rejected generation leaves no trace (the inferred form is only set by an accepted one)."""
import z3
from . import runner, nodeh
from .nodeh import BV, SRC, COMMON_STUBS
from .mharness import MCtx, mdischarge, module_of
from .cpp01 import vtable_slots
from .oracle import guard
from .llbmc import Ptr, NULL, Unsupported, ptr_cases, State

AG = 'src/libawkward/virtual/ArrayGenerator.cpp'

NATIVE = r'''
#include <cstdio>
#include <cstdlib>
#include <stdexcept>
#include "awkward/virtual/ArrayGenerator.h"
#include "awkward/array/NumpyArray.h"
#include "awkward/array/EmptyArray.h"
#include "awkward/Index.h"
using namespace awkward;
class Gen : public ArrayGenerator {
public:
  ContentPtr out;
  Gen(const FormPtr& form, int64_t length, const ContentPtr& o): ArrayGenerator(form, length), out(o) { }
  const ContentPtr generate() const override { return out; }
  bool inferred() const { return inferred_form_.get() != nullptr; }
  void caches(std::vector<ArrayCachePtr>&) const override { }
  const std::string tostring_part(const std::string&, const std::string&, const std::string&) const override { return ""; }
  const std::shared_ptr<ArrayGenerator> shallow_copy() const override { return std::make_shared<Gen>(form_, length_, out); }
  const std::shared_ptr<ArrayGenerator> with_form(const FormPtr& f) const override { return std::make_shared<Gen>(f, length_, out); }
  const std::shared_ptr<ArrayGenerator> with_length(int64_t l) const override { return std::make_shared<Gen>(form_, l, out); }
  bool referentially_equal(const std::shared_ptr<ArrayGenerator>&) const override { return false; }
};
int main(int argc, char** argv) {
  // argv: declared_length generated_length declare_form(0/1) form_matches(0/1)
  int64_t dlen = atoll(argv[1]), glen = atoll(argv[2]); bool hasform = atoi(argv[3]) != 0, match = atoi(argv[4]) != 0;
  Index64 idx(glen); for (int64_t i = 0; i < glen; i++) idx.data()[i] = i;
  ContentPtr out = std::make_shared<NumpyArray>(idx);
  FormPtr declared(nullptr);
  if (hasform) declared = match ? out.get()->form(true) : std::make_shared<EmptyArray>(Identities::none(), util::Parameters()).get()->form(true);
  Gen g(declared, dlen, out);
  bool raised = false;
  try { g.generate_and_check(); } catch (std::invalid_argument& e) { raised = true; }
  printf("{\"raised\": %d, \"inferred_set\": %d}\n", (int)raised, (int)g.inferred());
  fflush(stdout); _Exit(0);
}
'''


def native_generate(dlen, glen, hasform, match):
    from . import fullnative, build
    import subprocess, os, json, hashlib
    # linked against the whole natively built library (NumpyArray / forms are needed)
    exe = fullnative.link_driver(NATIVE, 'gen')
    r = subprocess.run([exe, str(dlen), str(glen), str(int(hasform)), str(int(match))], capture_output=True, text=True, timeout=30,
                       env=dict(os.environ, ASAN_OPTIONS='detect_leaks=0', UBSAN_OPTIONS='halt_on_error=1:exitcode=87'), errors='replace')
    try:
        return json.loads(r.stdout.strip().splitlines()[-1])
    except (ValueError, IndexError):
        return dict(outcome='crash(%d)' % r.returncode, log=r.stderr[-300:])


@guard
def h_generate_and_check(hasform):
    gslots, gn = vtable_slots(module_of(AG), 'N7awkward14SliceGeneratorE')
    cslots, cn = vtable_slots(module_of(SRC['EA']), 'N7awkward10EmptyArrayE')
    fslots, fnn = vtable_slots(module_of(SRC['EA']), 'N7awkward9EmptyFormE')

    def find(slots, frag):
        for s, k in slots.items():
            if frag in s:
                return k
        raise Unsupported('vtable slot %s not found' % frag)
    k_gen, k_len, k_form, k_equal = find(gslots, '8generateEv'), find(cslots, '6lengthEv'), find(cslots, '4formEb'), find(fslots, '5equalERKSt10shared_ptrINS_4FormEEbbbb')
    glen, dlen = z3.BitVec('glen', 64), z3.BitVec('dlen', 64)
    formok = z3.Bool('form_matches')

    def ret_ptr(st, sret, p):
        rec = st.mem.o[sret.obj]
        rec.cells[sret.off] = (p, 8)
        rec.cells[sret.off + 8] = (NULL, 8)

    def s_generate(eng, fr, ins, st, name, argv):
        ret_ptr(st, argv[0], Ptr('generated', 0))
        return None

    def s_form(eng, fr, ins, st, name, argv):
        ret_ptr(st, argv[0], Ptr('genform', 0))
        return None
    stubs = dict(COMMON_STUBS)
    stubs.update({'vf$g%d' % k_gen: s_generate, 'vf$c%d' % k_len: lambda *a: glen, 'vf$c%d' % k_form: s_form,
                  'vf$f%d' % k_equal: lambda *a: z3.If(formok, z3.BitVecVal(1, 1), z3.BitVecVal(0, 1)),
                  'vf$f*': nodeh.s_empty_string,
                  '_ZNSt7__cxx1112basic_stringIcSt11char_traitsIcESaIcEEC1EPKcRKS3_': nodeh.s_empty_string, '_ZNSt7__cxx1112basic_stringIcSt11char_traitsIcESaIcEEC2EPKcRKS3_': nodeh.s_empty_string,
                  '_ZStplIcSt11char_traitsIcESaIcEENSt7__cxx1112basic_stringIT_T0_T1_EE*': nodeh.s_empty_string, '_ZNSt7__cxx119to_stringEl': nodeh.s_empty_string,
                  '_ZNSt16invalid_argumentC1ERKNSt7__cxx1112basic_stringIcSt11char_traitsIcESaIcEEE': lambda *a: None})
    m = MCtx([AG], unwind=6, stubs=stubs)
    m.assume(glen >= 0, glen <= 2 ** 40, dlen >= -1, dlen <= 2 ** 40)
    m.record('gvt', {8 * j: (Ptr(('func', 'vf$g%d' % j), 0), 8) for j in range(gn)}, const=True)
    m.record('cvt', {8 * j: (Ptr(('func', 'vf$c%d' % j), 0), 8) for j in range(cn)}, const=True)
    m.record('fvt', {8 * j: (Ptr(('func', 'vf$f%d' % j), 0), 8) for j in range(fnn)}, const=True)
    m.record('generated', {0: (Ptr('cvt', 0), 8)}, const=True)
    m.record('genform', {0: (Ptr('fvt', 0), 8)}, const=True)
    m.record('declform', {0: (Ptr('fvt', 0), 8)}, const=True)
    m.record('oldform', {0: (Ptr('fvt', 0), 8)}, const=True)
    this = m.record('gen', {0: (Ptr('gvt', 0), 8), 8: (Ptr('declform', 0) if hasform else NULL, 8), 16: (NULL, 8), 24: (Ptr('oldform', 0), 8), 32: (NULL, 8), 40: (dlen, 8)})
    m.record('ret', {})
    out = m.call('_ZN7awkward14ArrayGenerator18generate_and_checkEv', [Ptr('ret', 0), this])
    short = z3.And(dlen >= 0, dlen > glen)
    bad = z3.Or(short, z3.Not(formok)) if hasform else short
    inferred = m.cell('gen', 24)

    def is_obj(p, name):
        return z3.Or([g for g, q in ptr_cases(p) if q.obj == name] + [z3.BoolVal(False)])
    obls = [('raises exactly when the generated array is shorter than declared%s' % (' or its form differs from the declared form' if hasform else ''), z3.simplify(out.raised) != bad),
            ('a rejected generation leaves the inferred form as it was', z3.And(out.raised, z3.Not(is_obj(inferred, 'oldform'))))]
    if hasform:
        obls.append(('with a declared form nothing is inferred', z3.Not(is_obj(inferred, 'oldform'))))
    else:
        obls.append(('an accepted generation records the generated form as the inferred form', z3.And(z3.Not(out.raised), z3.Not(is_obj(inferred, 'genform')))))
    obls.append(('an accepted generation returns the generated array', z3.And(z3.Not(out.raised), z3.Not(is_obj(m.cell('ret', 0), 'generated')))))

    def replay(model, ent):
        ev = lambda e: model.eval(e, model_completion=True)
        D, G, FM = ev(dlen).as_signed_long(), ev(glen).as_signed_long(), z3.is_true(ev(formok))
        if G > 1000:
            return False, 'generated length too large to replay', dict(dlen=D, glen=G)
        res = native_generate(D, G, hasform, FM)
        want = (D >= 0 and D > G) or (hasform and not FM)
        payload = dict(declared_length=D, generated_length=G, declared_form=hasform, form_matches=FM, native=res)
        # native twin starts with no inferred form: a rejected generation must leave it unset
        if res.get('raised') != int(want) or (want and res.get('inferred_set') != 0) or (not want and not hasform and res.get('inferred_set') != 1):
            return True, 'generator declared length %d%s, generated length %d, form %s: native %s; expected %s' % (
                D, ' and a form' if hasform else '', G, 'matches' if FM else 'differs', res, 'an error and no inferred form' if want else 'acceptance'), payload
        return False, 'native generator agrees (%s)' % res, payload
    return mdischarge(m, 'ArrayGenerator::generate_and_check %s' % ('with a declared form' if hasform else 'without a declared form'), obls,
                      [('rejected', out.raised), ('accepted', z3.Not(out.raised))], replay=replay, prefer=[glen <= 5, dlen <= 8],
                      extra=dict(bounds='any declared / generated length <= 2^40; form comparison outcome symbolic'))





# ------------------------------------------------------------------------------------------------ VirtualArray::array(): cache hit / miss / failed generation
VA = 'src/libawkward/array/VirtualArray.cpp'

NATIVE_VA = r'''
#include <cstdio>
#include <cstdlib>
#include <stdexcept>
#include <string>
#include "awkward/virtual/ArrayGenerator.h"
#include "awkward/virtual/ArrayCache.h"
#include "awkward/array/VirtualArray.h"
#include "awkward/array/NumpyArray.h"
#include "awkward/Index.h"
using namespace awkward;
static int generated = 0;
static ContentPtr mk(int64_t n, int64_t base) { Index64 idx(n); for (int64_t i = 0; i < n; i++) idx.data()[i] = base + i; return std::make_shared<NumpyArray>(idx); }
class Gen : public ArrayGenerator {
public:
  bool fails;
  Gen(bool f): ArrayGenerator(FormPtr(nullptr), 3), fails(f) { }
  const ContentPtr generate() const override { generated++; return fails ? mk(1, 500) : mk(3, 500); }      // too short = rejected by generate_and_check
  void caches(std::vector<ArrayCachePtr>&) const override { }
  const std::string tostring_part(const std::string&, const std::string&, const std::string&) const override { return ""; }
  const std::shared_ptr<ArrayGenerator> shallow_copy() const override { return std::make_shared<Gen>(fails); }
  const std::shared_ptr<ArrayGenerator> with_form(const FormPtr&) const override { return shallow_copy(); }
  const std::shared_ptr<ArrayGenerator> with_length(int64_t) const override { return shallow_copy(); }
  bool referentially_equal(const std::shared_ptr<ArrayGenerator>&) const override { return false; }
};
class Cache : public ArrayCache {
public:
  ContentPtr held; ContentPtr stored;
  Cache(ContentPtr h): held(h), stored(nullptr) { }
  ContentPtr get(const std::string&) const override { return held; }
  void set(const std::string&, const ContentPtr& v) override { stored = v; }
  bool is_broken() const override { return false; }
  const std::string tostring_part(const std::string&, const std::string&, const std::string&) const override { return ""; }
};
static const char* which(const ContentPtr& p) { if (p.get() == nullptr) return "nothing"; return p.get()->getitem_at_nowrap(0).get()->tojson(false, -1) == "100" ? "cached" : "generated"; }
int main(int argc, char** argv) {
  bool has_cache = atoi(argv[1]) != 0, hit = atoi(argv[2]) != 0, fails = atoi(argv[3]) != 0;
  std::shared_ptr<Cache> cache = std::make_shared<Cache>(hit ? mk(3, 100) : ContentPtr(nullptr));
  VirtualArray va(Identities::none(), util::Parameters(), std::make_shared<Gen>(fails), has_cache ? cache : ArrayCachePtr(nullptr), "key");
  bool raised = false; ContentPtr out(nullptr);
  try { out = va.array(); } catch (std::exception& e) { raised = true; }
  printf("{\"raised\": %d, \"generated\": %d, \"returned\": \"%s\", \"stored\": \"%s\"}\n", (int)raised, generated, which(out), which(cache->stored));
  fflush(stdout); _Exit(0);
}
'''


def native_virtual(has_cache, hit, fails):
    from . import fullnative
    import subprocess, os, json
    exe = fullnative.link_driver(NATIVE_VA, 'virt')
    r = subprocess.run([exe, str(int(has_cache)), str(int(hit)), str(int(fails))], capture_output=True, text=True, timeout=30,
                       env=dict(os.environ, ASAN_OPTIONS='detect_leaks=0', UBSAN_OPTIONS='halt_on_error=1:exitcode=87'), errors='replace')
    try:
        return json.loads(r.stdout.strip().splitlines()[-1])
    except (ValueError, IndexError):
        return dict(outcome='crash(%d)' % r.returncode, log=r.stderr[-300:])


@guard
def h_virtual_array(has_cache):
    """VirtualArray::array(): a cached array is returned as it is and the generator is not run; on a miss (or without a cache) the generator's
    checked result is returned and stored under the array's key; a generation that fails stores nothing"""
    from .cpp01 import struct_of
    mod = module_of(VA)
    fo, sz, al, fields = mod.types.struct_layout(struct_of(mod, '_ZNK7awkward12VirtualArray5arrayEv'))
    hit, genfails = z3.Bool('cache_hit'), z3.Bool('generation_fails')
    trace = []

    def ret_ptr(st, sret, p):
        rec = st.mem.o[sret.obj]
        rec.cells[sret.off] = (p, 8)
        rec.cells[sret.off + 8] = (NULL, 8)

    def s_get(eng, fr, ins, st, name, argv):
        trace.append(('get', st.pc))
        from .llbmc import ite
        ret_ptr(st, argv[0], ite(hit, Ptr('cached', 0), NULL))
        return None

    def s_set(eng, fr, ins, st, name, argv):
        val = eng.load(st, argv[2], '%"class.awkward::Content"*', fr.mod, 'stub')
        trace.append(('set', st.pc, val))
        return None

    def s_gen(eng, fr, ins, st, name, argv):
        trace.append(('generate', st.pc))
        ret_ptr(st, argv[0], Ptr('generated', 0))
        c = genfails
        return ('split', c)
    aslots, an = vtable_slots(module_of('src/libawkward/virtual/ArrayCache.cpp'), 'N7awkward10ArrayCacheE') if False else ({}, 8)
    stubs = dict(COMMON_STUBS)
    stubs.update({'vf$cache0': s_get, 'vf$cache1': s_set, 'vf$cache2': (lambda *a: z3.BitVecVal(0, 1)), 'vf$cache*': nodeh.s_empty_string,      # no virtual destructor: get, set, is_broken, tostring_part
                  '_ZN7awkward14ArrayGenerator18generate_and_checkEv': s_gen,
                  '_ZN7awkward9check_keyERKNSt7__cxx1112basic_stringIcSt11char_traitsIcESaIcEEE': lambda *a: z3.BitVecVal(0, 32),
                  '_ZN7awkward6kernel25fully_qualified_cache_keyENS0_3libERKNSt7__cxx1112basic_stringIcSt11char_traitsIcESaIcEEE': nodeh.s_empty_string,
                  '_ZNK7awkward12VirtualArray9cache_keyB5cxx11Ev': nodeh.s_empty_string})
    m = MCtx([VA], unwind=6, stubs=stubs)
    m.record('cachevt', {8 * j: (Ptr(('func', 'vf$cache%d' % j), 0), 8) for j in range(8)}, const=True)
    m.record('cache', {0: (Ptr('cachevt', 0), 8)}, const=True)
    m.record('cached', {0: (NULL, 8)}, const=True)
    m.record('generated', {0: (NULL, 8)}, const=True)
    m.record('gen', {0: (NULL, 8)}, const=True)
    cells = {0: (NULL, 8), fo[1]: (Ptr('gen', 0), 8), fo[1] + 8: (NULL, 8), fo[2]: (Ptr('cache', 0) if has_cache else NULL, 8), fo[2] + 8: (NULL, 8)}
    for k_ in range(len(fo)):
        if fields[k_].strip() == 'i32':
            cells[fo[k_]] = (z3.BitVecVal(0, 32), 4)
    # cache_key_: an empty small string
    for k_ in range(len(fo)):
        if 'basic_string' in fields[k_]:
            cells.update({fo[k_]: (Ptr('va', fo[k_] + 16), 8), fo[k_] + 8: (BV(0), 8), fo[k_] + 16: (z3.BitVecVal(0, 8), 1)})
    this = m.record('va', cells, const=True)
    m.record('ret', {})
    out = m.call('_ZNK7awkward12VirtualArray5arrayEv', [Ptr('ret', 0), this])
    ran = z3.Or([t[1] for t in trace if t[0] == 'generate'] + [z3.BoolVal(False)])
    sets = [t for t in trace if t[0] == 'set']
    stored = z3.Or([t[1] for t in sets] + [z3.BoolVal(False)])
    rp = m.cell('ret', 0)

    def is_obj(p, name):
        return z3.Or([g for g, q in ptr_cases(p) if q.obj == name] + [z3.BoolVal(False)])
    usehit = z3.And(hit, z3.BoolVal(has_cache))
    obls = [('the generator runs exactly when nothing is cached', ran != z3.Not(usehit)),
            ('raises exactly when the generation that is needed fails', z3.simplify(out.raised) != z3.And(z3.Not(usehit), genfails)),
            ('a cached array is returned as it is', z3.And(usehit, z3.Not(out.raised), z3.Not(is_obj(rp, 'cached')))),
            ('on a miss the generated array is returned', z3.And(z3.Not(usehit), z3.Not(out.raised), z3.Not(is_obj(rp, 'generated')))),
            ('a failed generation stores nothing in the cache', z3.And(out.raised, stored))]
    if has_cache:
        obls.append(('a successful call leaves the returned array in the cache', z3.And(z3.Not(out.raised), z3.Not(stored))))
        for t in sets:
            obls.append(('what is stored is what is returned', z3.And(t[1], z3.Not(out.raised), z3.Not(z3.Or(z3.And(is_obj(t[2], 'cached'), is_obj(rp, 'cached')), z3.And(is_obj(t[2], 'generated'), is_obj(rp, 'generated')))))))
    else:
        obls.append(('without a cache nothing is stored', stored))
    def replay(model, ent):
        H, F = z3.is_true(model.eval(hit, model_completion=True)), z3.is_true(model.eval(genfails, model_completion=True))
        res = native_virtual(has_cache, H, F)
        use = has_cache and H
        want = dict(raised=int((not use) and F), generated=int(not use), returned=('cached' if use else 'generated'))
        payload = dict(has_cache=has_cache, cache_hit=H, generation_fails=F, native=res, expected=want)
        bad = res.get('raised') != want['raised'] or res.get('generated') != want['generated']
        if not want['raised']:
            bad = bad or res.get('returned') != want['returned'] or (has_cache and res.get('stored') != want['returned'])
        else:
            bad = bad or res.get('stored') not in (None, 'nothing')
        if not has_cache and res.get('stored') not in (None, 'nothing'):
            bad = True
        if bad:
            return True, 'VirtualArray %s, cache %s, generation %s: native %s; expected %s' % ('with a cache' if has_cache else 'without a cache', 'hit' if H else 'miss', 'fails' if F else 'succeeds', res, want), payload
        return False, 'native VirtualArray agrees (%s)' % res, payload
    return mdischarge(m, 'VirtualArray::array %s' % ('with a cache' if has_cache else 'without a cache'), obls, [('cache hit', usehit), ('generation fails', z3.And(z3.Not(usehit), genfails))] if has_cache else [('generation fails', genfails)],
                      replay=replay, extra=dict(bounds='cache hit / miss and generator success / failure symbolic; cache and generator are opaque test doubles; key strings stubbed'))


def jobs(tier):
    return [(h_generate_and_check, (False,), 1800), (h_generate_and_check, (True,), 1800), (h_virtual_array, (True,), 1800), (h_virtual_array, (False,), 1800)]


# ------------------------------------------------------------------------------------------------ lazy range slicing of a virtual array
AG = 'src/libawkward/virtual/ArrayGenerator.cpp'


@guard
def h_virtual_range(nowrap):
    """VirtualArray::getitem_range(start, stop) on an array with a declared length L and nothing cached: the generator is NOT run; the answer is a
    new virtual array whose declared length is len(range(*slice(start, stop).indices(L))) and whose generator will slice this very array with
    exactly that range (step 1) when - and only when - data are needed; slicing the whole array [0:L] gives the array itself (a copy with the
    same generator).  SliceGenerator::generate is checked separately (h_slice_generate)."""
    from .cpp01 import struct_of
    from .hlib import py_slice_indices
    from .c18 import KNONE
    mod = module_of(VA)
    fo, sz, al, fields = mod.types.struct_layout(struct_of(mod, '_ZNK7awkward12VirtualArray5arrayEv'))
    agm = module_of(AG)
    trace = []

    def s_gen(eng, fr, ins, st, name, argv):
        trace.append(('generate', st.pc))
        rec = st.mem.o[argv[0].obj]
        rec.cells[argv[0].off] = (Ptr('generated', 0), 8); rec.cells[argv[0].off + 8] = (NULL, 8)
        return None
    stubs = dict(COMMON_STUBS)
    stubs.update({'_ZN7awkward14ArrayGenerator18generate_and_checkEv': s_gen,
                  '_ZN7awkward9check_keyERKNSt7__cxx1112basic_stringIcSt11char_traitsIcESaIcEEE': lambda *a: z3.BitVecVal(0, 32),
                  '_ZN7awkward6kernel25fully_qualified_cache_keyENS0_3libERKNSt7__cxx1112basic_stringIcSt11char_traitsIcESaIcEEE': nodeh.s_empty_string,
                  '_ZNK7awkward12VirtualArray9cache_keyB5cxx11Ev': nodeh.s_empty_string,
                  '_ZN7awkward10ArrayCache6newkeyB5cxx11Ev': nodeh.s_empty_string, '_ZN7awkward10ArrayCache8next_keyB5cxx11Ev': nodeh.s_empty_string,
                  '_ZNSt7__cxx1112basic_stringIcSt11char_traitsIcESaIcEEC1ERKS4_': nodeh.s_empty_string, '_ZNSt7__cxx1112basic_stringIcSt11char_traitsIcESaIcEEC2ERKS4_': nodeh.s_empty_string,
                  '_ZNSt7__cxx1112basic_stringIcSt11char_traitsIcESaIcEE12_M_constructIPcEEvT_S7_St20forward_iterator_tag': stub_noop_keep})
    m = MCtx([VA, AG, 'src/libawkward/Slice.cpp', 'src/libawkward/Content.cpp', 'src/libawkward/Identities.cpp', 'src/cpu-kernels/kernel-utils.cpp', 'src/libawkward/kernel-dispatch.cpp',
              'src/libawkward/virtual/ArrayCache.cpp'], unwind=10, stubs=stubs)
    L, start, stop = m.bv('declared_length'), m.bv('start'), m.bv('stop')
    m.assume(L >= 0, L <= 2 ** 40)
    if nowrap:
        m.assume(start >= 0, start <= stop, stop <= L)
    else:
        m.assume(z3.Or(start == KNONE, z3.And(start >= -(2 ** 41), start <= 2 ** 41)), z3.Or(stop == KNONE, z3.And(stop >= -(2 ** 41), stop <= 2 ** 41)))
    m.record('generated', {0: (NULL, 8)}, const=True)
    m.record('genvt', {8 * j: (Ptr(('func', 'vf$gen%d' % j), 0), 8) for j in range(8)}, const=True)
    m.record('gen', {0: (Ptr('genvt', 0), 8), 8: (NULL, 8), 16: (NULL, 8), 24: (NULL, 8), 32: (NULL, 8), 40: (L, 8)}, const=True)          # {vptr, form_ = null, inferred_form_ = null, length_}
    cells = {0: (NULL, 8), fo[1]: (Ptr('gen', 0), 8), fo[1] + 8: (NULL, 8), fo[2]: (NULL, 8), fo[2] + 8: (NULL, 8)}
    st0 = State({}, m.mem, z3.BoolVal(True))
    vt = m.eng.global_ptr(st0, '@_ZTVN7awkward12VirtualArrayE', mod)
    cells[0] = (Ptr(vt.obj, 16), 8)
    cells.update({8: (NULL, 8), 16: (NULL, 8)})
    nodeh_empty_map(cells, 24, 'va')
    for k_ in range(len(fo)):
        if fields[k_].strip() == 'i32':
            cells[fo[k_]] = (z3.BitVecVal(0, 32), 4)
        if 'basic_string' in fields[k_]:
            cells.update({fo[k_]: (Ptr('va', fo[k_] + 16), 8), fo[k_] + 8: (BV(0), 8), fo[k_] + 16: (z3.BitVecVal(0, 8), 1)})
        if 'std::vector' in fields[k_] and fo[k_] not in cells:
            cells.update({fo[k_]: (NULL, 8), fo[k_] + 8: (NULL, 8), fo[k_] + 16: (NULL, 8)})
    this = m.record('va', cells, const=True)
    m.record('ret', {})
    sym = '_ZNK7awkward12VirtualArray20getitem_range_nowrapEll' if nowrap else '_ZNK7awkward12VirtualArray13getitem_rangeEll'
    out = m.call(sym, [Ptr('ret', 0), this, start, stop])
    ran = z3.Or([t[1] for t in trace] + [z3.BoolVal(False)])
    obls = [('lazy slicing does not raise', out.raised), ('the generator is not run by slicing', ran)]
    a, b = (start, stop) if nowrap else py_slice_indices(start, stop, z3.BoolVal(True), L)
    b = z3.If(b < a, a, b)
    whole = z3.And(a == 0, b == L)
    # decode the answer: a VirtualArray; its generator is either `gen` itself (whole array) or a SliceGenerator
    for g, q in ptr_cases(m.cell('ret', 0)):
        if q.obj is None:
            obls.append(('an array is returned', z3.And(g, z3.Not(out.raised))))
            continue
        o = out.mem.o[q.obj]
        gp = o.cells[q.off + fo[1]][0]
        for g2, q2 in ptr_cases(gp):
            gg = z3.And(g, g2, z3.Not(out.raised))
            if q2.obj is None:
                obls.append(('the answer has a generator', gg)); continue
            if q2.obj == 'gen':
                obls.append(('the array itself is returned only for the whole range', z3.And(gg, z3.Not(whole))))
                continue
            so = out.mem.o[q2.obj]
            vp = so.cells[q2.off][0]
            vcls = [str(c.obj) for _, c in ptr_cases(vp) if c.obj is not None]
            if not vcls or 'SliceGenerator' not in vcls[0]:
                obls.append(('the new generator is a slice generator', gg)); continue
            sfo = agm.types.struct_layout(struct_of(agm, '_ZNK7awkward14SliceGenerator8generateEv'))[0]
            obls.append(('a slice generator is made only for a proper sub-range', z3.And(gg, whole)))
            obls.append(('the declared length of the answer is the number of selected items', z3.And(gg, so.cells[q2.off + 40][0] != b - a)))
            cp = so.cells[q2.off + sfo[1]][0]
            inner_ok = z3.BoolVal(False)
            for g3, q3 in ptr_cases(cp):
                if q3.obj is None:
                    continue
                co = out.mem.o[q3.obj]
                ig = co.cells.get(q3.off + fo[1])
                if ig is not None:
                    inner_ok = z3.Or(inner_ok, z3.And(g3, z3.Or([gx for gx, qx in ptr_cases(ig[0]) if qx.obj == 'gen'] + [z3.BoolVal(False)])))
            obls.append(('the slice generator slices this very array (same generator underneath)', z3.And(gg, z3.Not(inner_ok))))
            # slice_: Slice {vector<SliceItemPtr> items_, sealed}
            ib, ie = so.cells[q2.off + sfo[2]][0], so.cells[q2.off + sfo[2] + 8][0]
            ibc = [c for _, c in ptr_cases(ib) if c.obj is not None]
            iec = [c for _, c in ptr_cases(ie) if c.obj is not None]
            if len(ibc) != 1 or len(iec) != 1:
                raise Unsupported('slice items of the slice generator are not a single buffer')
            nitems = (iec[0].off - ibc[0].off) // 16
            obls.append(('the stored slice has exactly one item', z3.And(gg, z3.BoolVal(nitems != 1))))
            if nitems >= 1:
                ip = out.mem.o[ibc[0].obj].cells[ibc[0].off][0]
                ic = [c for _, c in ptr_cases(ip) if c.obj is not None]
                io = out.mem.o[ic[0].obj]
                s0, s1, s2 = (io.cells[ic[0].off + 8 * k][0] for k in (1, 2, 3))
                obls.append(('the stored slice is exactly the regularised range [a:b:1]', z3.And(gg, z3.Or(s0 != a, s1 != b, s2 != 1))))

    def replay(model, ent):
        import subprocess, os, json
        from . import fullnative
        ev = lambda t: model.eval(t, model_completion=True).as_signed_long()
        Lv, sv, ev_ = ev(L), ev(start), ev(stop)
        if Lv > 2000:
            return False, 'declared length too large to replay', {}
        exe = fullnative.link_driver(NATIVE_RANGE, 'virtrange')
        r = subprocess.run([exe, str(Lv), str(sv), str(ev_), str(int(nowrap))], capture_output=True, text=True, timeout=30,
                           env=dict(os.environ, ASAN_OPTIONS='detect_leaks=0', UBSAN_OPTIONS='halt_on_error=1:exitcode=87'), errors='replace')
        try:
            res = json.loads(r.stdout.strip().splitlines()[-1])
        except (ValueError, IndexError):
            return True, 'lazy slice [%s:%s] of a virtual array of declared length %d: native run crashed (%d) %s' % (sv, ev_, Lv, r.returncode, r.stderr[-200:]), {}
        py = list(range(Lv))[slice(None if sv == KNONE else sv, None if ev_ == KNONE else ev_)]
        want = dict(raised=0, generated_by_slicing=0, declared=len(py), values=py, generated_total=1)
        payload = dict(length=Lv, start=sv, stop=ev_, native=res, expected=want)
        if res.get('raised') or res.get('generated_by_slicing') != 0 or res.get('declared') != len(py) or res.get('values') != py or res.get('generated_total') != 1:
            return True, 'lazy slice [%s:%s] of a virtual array of declared length %d: native %s, expected %s' % ('None' if sv == KNONE else sv, 'None' if ev_ == KNONE else ev_, Lv, res, want), payload
        return False, 'native VirtualArray agrees (%s)' % res, payload
    return mdischarge(m, 'VirtualArray::%s (declared length, nothing cached)' % ('getitem_range_nowrap' if nowrap else 'getitem_range'), obls,
                      [('whole array', whole), ('proper sub-range', z3.And(z3.Not(whole), b > a))], replay=replay, timeout_ms=120000, prefer=[L <= 12, z3.Or(start == KNONE, z3.And(start >= -20, start <= 20)), z3.Or(stop == KNONE, z3.And(stop >= -20, stop <= 20))],
                      extra=dict(bounds='declared length 0..2^40, start / stop any of None or |value| <= 2^41' if not nowrap else 'declared length 0..2^40, 0 <= start <= stop <= length'))


NATIVE_RANGE = r'''
#include <cstdio>
#include <cstdlib>
#include <stdexcept>
#include <string>
#include "awkward/virtual/ArrayGenerator.h"
#include "awkward/virtual/ArrayCache.h"
#include "awkward/array/VirtualArray.h"
#include "awkward/array/NumpyArray.h"
#include "awkward/Index.h"
#include "awkward/Slice.h"
using namespace awkward;
static int generated = 0;
class Gen : public ArrayGenerator {
public:
  int64_t n;
  Gen(int64_t n_): ArrayGenerator(FormPtr(nullptr), n_), n(n_) { }
  const ContentPtr generate() const override { generated++; Index64 idx(n); for (int64_t i = 0; i < n; i++) idx.data()[i] = i; return std::make_shared<NumpyArray>(idx); }
  void caches(std::vector<ArrayCachePtr>&) const override { }
  const std::string tostring_part(const std::string&, const std::string&, const std::string&) const override { return ""; }
  const std::shared_ptr<ArrayGenerator> shallow_copy() const override { return std::make_shared<Gen>(n); }
  const std::shared_ptr<ArrayGenerator> with_form(const FormPtr&) const override { return shallow_copy(); }
  const std::shared_ptr<ArrayGenerator> with_length(int64_t) const override { return shallow_copy(); }
  bool referentially_equal(const std::shared_ptr<ArrayGenerator>&) const override { return false; }
};
int main(int argc, char** argv) {
  int64_t L = atoll(argv[1]), start = atoll(argv[2]), stop = atoll(argv[3]); bool nowrap = atoi(argv[4]) != 0;
  VirtualArray va(Identities::none(), util::Parameters(), std::make_shared<Gen>(L), ArrayCachePtr(nullptr));
  try {
    ContentPtr out = nowrap ? va.getitem_range_nowrap(start, stop) : va.getitem_range(start, stop);
    int g0 = generated;
    VirtualArray* v = dynamic_cast<VirtualArray*>(out.get());
    long long declared = v ? (long long)v->generator().get()->length() : -99;
    ContentPtr mat = v ? v->array() : out;
    printf("{\"raised\": 0, \"generated_by_slicing\": %d, \"declared\": %lld, \"values\": [", g0, declared);
    for (int64_t i = 0; i < mat.get()->length(); i++) printf("%s%s", i ? ", " : "", mat.get()->getitem_at_nowrap(i).get()->tojson(false, -1).c_str());
    printf("], \"generated_total\": %d}\n", generated);
  } catch (std::exception& e) { printf("{\"raised\": 1}\n"); }
  fflush(stdout); _Exit(0);
}
'''


def nodeh_empty_map(cells, base, objname):
    cells[base] = (z3.BitVecVal(0, 8), 1)
    cells[base + 8] = (z3.BitVecVal(0, 32), 4)
    cells[base + 16] = (NULL, 8)
    cells[base + 24] = (Ptr(objname, base + 8), 8)
    cells[base + 32] = (Ptr(objname, base + 8), 8)
    cells[base + 40] = (BV(0), 8)


def stub_noop_keep(eng, fr, ins, st, name, argv):
    return None


_jobs_virtual = jobs


def jobs(tier):
    return _jobs_virtual(tier) + [(h_virtual_range, (False,), 1800), (h_virtual_range, (True,), 1800)]


@guard
def h_slice_generate(kind):
    """SliceGenerator::generate(): the deferred slice is applied to the array it was taken from - a stored range [a:b:1] as getitem_range(a, b)
    with exactly those bounds (kind 'range'), any other stored slice through getitem with the stored slice itself (kind 'at') - and the answer is
    returned as it is"""
    from .cpp01 import struct_of
    from .nodeh import NodeCtx
    nc = NodeCtx(['EA', 'CNT', 'IDX', 'UTL', 'KD', 'IDS', 'SLC'], [], unwind=10)
    nodeh.SRC.setdefault('AG', AG)
    agm = module_of(AG)
    if agm not in nc.m.eng.mods:
        nc.m.eng.mods.append(agm)
    sfo = agm.types.struct_layout(struct_of(agm, '_ZNK7awkward14SliceGenerator8generateEv'))[0]
    a, b = nc.m.bv('a'), nc.m.bv('b')
    seen = []
    kk = z3.BitVec('k!', 64)

    def s_range(eng, fr, ins, st, name, argv):
        seen.append(('range', st.pc, argv[2], argv[3]))
        nc._ret(st, argv[0], nc.fresh_content(eng, st, BV(3), z3.Lambda([kk], kk + 700), derived='sliced'))
        return None

    def s_getitem(eng, fr, ins, st, name, argv):
        seen.append(('getitem', st.pc, argv[2], None))
        nc._ret(st, argv[0], nc.fresh_content(eng, st, BV(3), z3.Lambda([kk], kk + 800), derived='sliced'))
        return None
    nc.m.eng.stubs['vf$slot%d' % nc.slot('13getitem_rangeEll')] = s_range
    nc.m.eng.stubs['vf$slot%d' % nc.slot('7getitemERKNS_5SliceE')] = s_getitem
    if kind == 'range':
        item = nc.m.record('item', {0: (nc.vptr_of('N7awkward10SliceRangeE', 'SLC'), 8), 8: (a, 8), 16: (b, 8), 24: (BV(1), 8)}, const=True)
    else:
        item = nc.m.record('item', {0: (nc.vptr_of('N7awkward7SliceAtE', 'SLC'), 8), 8: (a, 8)}, const=True)
    nc.m.record('itemsbuf', {0: (item, 8), 8: (NULL, 8)}, const=True)
    st0 = State({}, nc.m.mem, z3.BoolVal(True))
    vt = nc.m.eng.global_ptr(st0, '@_ZTVN7awkward14SliceGeneratorE', agm)
    cells = {0: (Ptr(vt.obj, 16), 8), 8: (NULL, 8), 16: (NULL, 8), 24: (NULL, 8), 32: (NULL, 8), 40: (BV(3), 8),
             sfo[1]: (nc.content0, 8), sfo[1] + 8: (NULL, 8),
             sfo[2]: (Ptr('itemsbuf', 0), 8), sfo[2] + 8: (Ptr('itemsbuf', 16), 8), sfo[2] + 16: (Ptr('itemsbuf', 16), 8), sfo[2] + 24: (z3.BitVecVal(1, 8), 1)}
    this = nc.m.record('sg', cells, const=True)
    nc.m.record('ret', {})
    out = nc.m.call('_ZNK7awkward14SliceGenerator8generateEv', [Ptr('ret', 0), this])
    obls = [('generate does not raise', out.raised), ('the array is sliced exactly once', z3.BoolVal(len(seen) != 1))]
    for what, pc, x, y in seen:
        if kind == 'range':
            obls.append(('a stored range is applied as getitem_range with exactly its bounds', z3.And(pc, z3.Or(z3.BoolVal(what != 'range'), x != a, (y != b) if y is not None else z3.BoolVal(True)))))
        else:
            same = z3.Or([g for g, q in nodeh.ptr_cases(x) if q.obj == 'sg' and q.off == sfo[2]] + [z3.BoolVal(False)]) if what == 'getitem' else z3.BoolVal(False)
            obls.append(('any other stored slice is applied through getitem with the stored slice', z3.And(pc, z3.Not(same))))
    res = nodeh.decode(nc, out.mem, nc.m.cell('ret', 0))
    obls.append(('what the array answers is returned as it is', z3.BoolVal(res.get('cls') != 'opaque' or res.get('derived') != 'sliced')))
    return mdischarge(nc.m, 'SliceGenerator::generate (%s)' % kind, obls, [], replay=None, extra=dict(bounds='stored bounds any int64; the sliced array is an opaque content'))


_jobs_vrange = jobs


def jobs(tier):
    return _jobs_vrange(tier) + [(h_slice_generate, ('range',), 900), (h_slice_generate, ('at',), 900)]


# ------------------------------------------------------------------------------------------------ C18: lazy projection of a virtual array
@guard
def h_virtual_fields():
    """VirtualArray::getitem_fields(keys) on an array with a declared form and nothing cached: the generator is not run; the answer is a new
    virtual array that will apply exactly that projection to this very array, and the depths it remembers (purelist_depth / minmax_depth /
    branch_depth answered without materialising) are those of the *projected* form - what form.getitem_fields(keys) reports - not of the whole
    record"""
    from .cpp01 import struct_of, vtable_slots
    mod = module_of(VA)
    fo, sz, al, fields = mod.types.struct_layout(struct_of(mod, '_ZNK7awkward12VirtualArray5arrayEv'))
    fslots, nf = vtable_slots(module_of('src/libawkward/array/RecordArray.cpp'), 'N7awkward10RecordFormE')
    slot = lambda frag: [k for s_, k in fslots.items() if frag in s_][0]
    trace = []

    def s_gen(eng, fr, ins, st, name, argv):
        trace.append(('generate', st.pc))
        rec = st.mem.o[argv[0].obj]
        rec.cells[argv[0].off] = (Ptr('generated', 0), 8); rec.cells[argv[0].off + 8] = (NULL, 8)
        return None

    def which(p):
        objs = [q.obj for g, q in ptr_cases(p) if q.obj is not None]
        if len(objs) != 1 or objs[0] not in ('wholeform', 'projform'):
            raise Unsupported('form pointer %s' % (p,))
        return objs[0]
    DEPTHS = {'wholeform': (21, 22, 23, 1, 24), 'projform': (11, 12, 13, 0, 14)}
    asked = []

    def s_form_fields(eng, fr, ins, st, name, argv):
        sret, selfp, keys = argv
        asked.append((st.pc, which(selfp), keys))
        rec = st.mem.o[sret.obj]
        rec.cells[sret.off] = (Ptr('projform', 0), 8); rec.cells[sret.off + 8] = (NULL, 8)
        return None
    stubs = dict(COMMON_STUBS)
    stubs.update({'_ZN7awkward14ArrayGenerator18generate_and_checkEv': s_gen,
                  '_ZN7awkward9check_keyERKNSt7__cxx1112basic_stringIcSt11char_traitsIcESaIcEEE': lambda *a: z3.BitVecVal(0, 32),
                  '_ZN7awkward6kernel25fully_qualified_cache_keyENS0_3libERKNSt7__cxx1112basic_stringIcSt11char_traitsIcESaIcEEE': nodeh.s_empty_string,
                  '_ZNK7awkward12VirtualArray9cache_keyB5cxx11Ev': nodeh.s_empty_string,
                  '_ZN7awkward10ArrayCache6newkeyB5cxx11Ev': nodeh.s_empty_string, '_ZN7awkward10ArrayCache8next_keyB5cxx11Ev': nodeh.s_empty_string,
                  '_ZNSt7__cxx1112basic_stringIcSt11char_traitsIcESaIcEEC1ERKS4_': nodeh.s_empty_string, '_ZNSt7__cxx1112basic_stringIcSt11char_traitsIcESaIcEEC2ERKS4_': nodeh.s_empty_string,
                  '_ZNSt7__cxx1112basic_stringIcSt11char_traitsIcESaIcEE12_M_constructIPcEEvT_S7_St20forward_iterator_tag': stub_noop_keep,
                  'vf$form%d' % slot('14getitem_fieldsE'): s_form_fields,
                  'vf$form%d' % slot('14purelist_depthEv'): lambda eng, fr, ins, st, name, argv: BV(DEPTHS[which(argv[0])][0]),
                  'vf$form%d' % slot('12minmax_depthEv'): lambda eng, fr, ins, st, name, argv: [BV(DEPTHS[which(argv[0])][1]), BV(DEPTHS[which(argv[0])][2])],
                  'vf$form%d' % slot('12branch_depthEv'): lambda eng, fr, ins, st, name, argv: [z3.BitVecVal(DEPTHS[which(argv[0])][3], 8), BV(DEPTHS[which(argv[0])][4])]})
    m = MCtx([VA, AG, 'src/libawkward/Slice.cpp', 'src/libawkward/Content.cpp', 'src/libawkward/Identities.cpp', 'src/cpu-kernels/kernel-utils.cpp', 'src/libawkward/kernel-dispatch.cpp',
              'src/libawkward/virtual/ArrayCache.cpp'], unwind=12, stubs=stubs)
    L = m.bv('declared_length')
    m.assume(L >= 0, L <= 2 ** 40)
    m.record('generated', {0: (NULL, 8)}, const=True)
    m.record('formvt', {8 * j: (Ptr(('func', 'vf$form%d' % j), 0), 8) for j in range(nf)}, const=True)
    for nm in ('wholeform', 'projform'):
        m.record(nm, {0: (Ptr('formvt', 0), 8), 8: (NULL, 8)}, const=True)
    m.record('genvt', {8 * j: (Ptr(('func', 'vf$gen%d' % j), 0), 8) for j in range(8)}, const=True)
    m.record('gen', {0: (Ptr('genvt', 0), 8), 8: (Ptr('wholeform', 0), 8), 16: (NULL, 8), 24: (NULL, 8), 32: (NULL, 8), 40: (L, 8)}, const=True)          # {vptr, form_, inferred_form_ = null, length_}
    cells = {0: (NULL, 8), fo[1]: (Ptr('gen', 0), 8), fo[1] + 8: (NULL, 8), fo[2]: (NULL, 8), fo[2] + 8: (NULL, 8)}
    st0 = State({}, m.mem, z3.BoolVal(True))
    vt = m.eng.global_ptr(st0, '@_ZTVN7awkward12VirtualArrayE', mod)
    cells[0] = (Ptr(vt.obj, 16), 8)
    cells.update({8: (NULL, 8), 16: (NULL, 8)})
    nodeh_empty_map(cells, 24, 'va')
    vecfield = None
    for k_ in range(len(fo)):
        if fields[k_].strip() == 'i32':
            cells[fo[k_]] = (z3.BitVecVal(0, 32), 4)
        if 'basic_string' in fields[k_]:
            cells.update({fo[k_]: (Ptr('va', fo[k_] + 16), 8), fo[k_] + 8: (BV(0), 8), fo[k_] + 16: (z3.BitVecVal(0, 8), 1)})
        if 'std::vector' in fields[k_] and fo[k_] not in cells:
            cells.update({fo[k_]: (NULL, 8), fo[k_] + 8: (NULL, 8), fo[k_] + 16: (NULL, 8)})
            vecfield = fo[k_]
    this = m.record('va', cells, const=True)
    from .mnode import _string_cells
    kc = {}
    _string_cells(kc, 0, 'keysbuf', 'x')
    m.record('keysbuf', kc, const=True)
    keys = m.record('keysvec', {0: (Ptr('keysbuf', 0), 8), 8: (Ptr('keysbuf', 32), 8), 16: (Ptr('keysbuf', 32), 8)}, const=True)
    m.record('ret', {})
    cands = sorted([f for mod_ in m.eng.mods for f in mod_.func_src if f.startswith('_ZNK7awkward12VirtualArray14getitem_fieldsERKSt6vector')], key=len)
    out = m.call(cands[0], [Ptr('ret', 0), this, keys])
    ran = z3.Or([t[1] for t in trace] + [z3.BoolVal(False)])
    obls = [('lazy projection does not raise', out.raised), ('the generator is not run by projecting', ran),
            ('the declared form is asked for its projection onto the same keys', z3.BoolVal(not asked or any(w != 'wholeform' for _, w, _k in asked)))]
    for g, q in ptr_cases(m.cell('ret', 0)):
        if q.obj is None:
            obls.append(('an array is returned', z3.And(g, z3.Not(out.raised))))
            continue
        o = out.mem.o[q.obj]
        if vecfield is None:
            raise Unsupported('no vector field (cache_depths_) found in VirtualArray')
        vb, ve = o.cells[q.off + vecfield][0], o.cells[q.off + vecfield + 8][0]
        bc = [c for _, c in ptr_cases(vb) if c.obj is not None]
        ec = [c for _, c in ptr_cases(ve) if c.obj is not None]
        if len(bc) != 1 or len(ec) != 1:
            obls.append(('the answer remembers its depths', g)); continue
        buf = out.mem.o[bc[0].obj]
        n = nodeh.concrete(ec[0].off - bc[0].off if not isinstance(ec[0].off, int) else BV(ec[0].off - (bc[0].off if isinstance(bc[0].off, int) else 0)), 'number of remembered depths')
        vals = []
        if hasattr(buf, 'arr'):
            vals = [z3.simplify(z3.Select(buf.arr, bc[0].off + i)) for i in range(n)]
        else:
            vals = [buf.cells[bc[0].off + 8 * i][0] for i in range(n // 8)]
        if len(vals) != 5:
            obls.append(('five depths are remembered (purelist, min, max, branching, branch depth), not %d' % len(vals), g)); continue
        for i, (v, w, nm_) in enumerate(zip(vals, DEPTHS['projform'], ('purelist_depth', 'min depth', 'max depth', 'branching flag', 'branch depth'))):
            obls.append(('the remembered %s is that of the projected form' % nm_, z3.And(g, v != w)))
    def replay(model, ent):
        import subprocess, os
        from . import fullnative
        try:
            exe = fullnative.link_driver(NATIVE_FIELDS, 'virtfields')
        except Exception as e:      # noqa
            return False, 'replay driver did not build: %s' % str(e)[-400:], {}
        r = subprocess.run([exe], capture_output=True, text=True, timeout=30,
                           env=dict(os.environ, ASAN_OPTIONS='detect_leaks=0', UBSAN_OPTIONS='halt_on_error=1:exitcode=87'), errors='replace')
        payload = dict(native=r.stdout.strip())
        if r.returncode != 0:
            return True, 'virtual array of records {x: int64, y: var * float64}, projected lazily onto x: %s' % (r.stdout.strip() or r.stderr[-200:]), payload
        return False, 'native VirtualArray agrees (%s)' % r.stdout.strip(), payload
    return mdischarge(m, 'VirtualArray::getitem_fields (declared form, nothing cached)', obls, [], replay=replay,
                      extra=dict(bounds='declared length 0..2^40; the form and its projection are test doubles answering fixed distinct depths; one key'))


NATIVE_FIELDS = r"""
#include <cstdio>
#include <cstdlib>
#include <stdexcept>
#include <string>
#include "awkward/virtual/ArrayGenerator.h"
#include "awkward/virtual/ArrayCache.h"
#include "awkward/array/VirtualArray.h"
#include "awkward/array/NumpyArray.h"
#include "awkward/array/ListOffsetArray.h"
#include "awkward/array/RecordArray.h"
#include "awkward/Index.h"
#include "awkward/Slice.h"
using namespace awkward;
static int generated = 0;
class Gen : public ArrayGenerator {
public:
  Gen(const FormPtr& f): ArrayGenerator(f, 3) { }
  const ContentPtr generate() const override { generated++; throw std::runtime_error("not needed"); }
  void caches(std::vector<ArrayCachePtr>&) const override { }
  const std::string tostring_part(const std::string&, const std::string&, const std::string&) const override { return ""; }
  const std::shared_ptr<ArrayGenerator> shallow_copy() const override { return std::make_shared<Gen>(form_); }
  const std::shared_ptr<ArrayGenerator> with_form(const FormPtr& f) const override { return std::make_shared<Gen>(f); }
  const std::shared_ptr<ArrayGenerator> with_length(int64_t) const override { return shallow_copy(); }
  bool referentially_equal(const std::shared_ptr<ArrayGenerator>&) const override { return false; }
};
int main() {
  FormKey nokey(nullptr);
  FormPtr ints = std::make_shared<NumpyForm>(false, util::Parameters(), nokey, std::vector<int64_t>(), 8, "l", util::dtype::int64);
  FormPtr floats = std::make_shared<NumpyForm>(false, util::Parameters(), nokey, std::vector<int64_t>(), 8, "d", util::dtype::float64);
  FormPtr lists = std::make_shared<ListOffsetForm>(false, util::Parameters(), nokey, Index::Form::i64, floats);
  util::RecordLookupPtr names = std::make_shared<util::RecordLookup>(); names->push_back("x"); names->push_back("y");
  FormPtr rec = std::make_shared<RecordForm>(false, util::Parameters(), nokey, names, std::vector<FormPtr>({ints, lists}));
  VirtualArray va(Identities::none(), util::Parameters(), std::make_shared<Gen>(rec), ArrayCachePtr(nullptr));
  int bad = 0;
  try {
    for (int which = 0; which < 2; which++) {
      ContentPtr out = va.getitem_fields(std::vector<std::string>({which == 0 ? "x" : "y"}));
      std::pair<int64_t, int64_t> mm = out.get()->minmax_depth();
      std::pair<bool, int64_t> br = out.get()->branch_depth();
      int64_t want = which == 0 ? 1 : 2;
      printf("%s: purelist_depth %lld minmax (%lld, %lld) branch (%d, %lld) generated %d; ", which == 0 ? "x" : "y", (long long)out.get()->purelist_depth(), (long long)mm.first, (long long)mm.second, (int)br.first, (long long)br.second, generated);
      if (mm.first != want || mm.second != want || br.first || br.second != want || generated) bad = 1;
    }
  } catch (std::exception& e) { printf("raised %.80s", e.what()); bad = 1; }
  printf("\n"); fflush(stdout); _Exit(bad);
}
"""


_jobs_before_fields = jobs


def jobs(tier):
    return _jobs_before_fields(tier) + [(h_virtual_fields, (), 1800)]
