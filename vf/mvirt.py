"""C18, lazy arrays (M-harness): ArrayGenerator::generate_and_check with an opaque generator, content and forms - the declared length and
form are enforced, and a rejected generation leaves no trace (the inferred form is only set by an accepted one)."""
import z3
from . import runner, nodeh
from .nodeh import BV, SRC, COMMON_STUBS
from .mharness import MCtx, mdischarge, module_of
from .cpp01 import vtable_slots
from .oracle import guard
from .llbmc import Ptr, NULL, Unsupported, ptr_cases

AG = 'src/libawkward/virtual/ArrayGenerator.cpp'

NATIVE = r'''
#include <cstdio>
#include <cstdlib>
#include <stdexcept>
#include "awkward/virtual/ArrayGenerator.h"
#include "awkward/array/NumpyArray.h"
#include "awkward/array/EmptyArray.h"
#include "awkward/Index.h"
using namespace awkward;
class Gen : public ArrayGenerator {
public:
  ContentPtr out;
  Gen(const FormPtr& form, int64_t length, const ContentPtr& o): ArrayGenerator(form, length), out(o) { }
  const ContentPtr generate() const override { return out; }
  bool inferred() const { return inferred_form_.get() != nullptr; }
  void caches(std::vector<ArrayCachePtr>&) const override { }
  const std::string tostring_part(const std::string&, const std::string&, const std::string&) const override { return ""; }
  const std::shared_ptr<ArrayGenerator> shallow_copy() const override { return std::make_shared<Gen>(form_, length_, out); }
  const std::shared_ptr<ArrayGenerator> with_form(const FormPtr& f) const override { return std::make_shared<Gen>(f, length_, out); }
  const std::shared_ptr<ArrayGenerator> with_length(int64_t l) const override { return std::make_shared<Gen>(form_, l, out); }
  bool referentially_equal(const std::shared_ptr<ArrayGenerator>&) const override { return false; }
};
int main(int argc, char** argv) {
  // argv: declared_length generated_length declare_form(0/1) form_matches(0/1)
  int64_t dlen = atoll(argv[1]), glen = atoll(argv[2]); bool hasform = atoi(argv[3]) != 0, match = atoi(argv[4]) != 0;
  Index64 idx(glen); for (int64_t i = 0; i < glen; i++) idx.data()[i] = i;
  ContentPtr out = std::make_shared<NumpyArray>(idx);
  FormPtr declared(nullptr);
  if (hasform) declared = match ? out.get()->form(true) : std::make_shared<EmptyArray>(Identities::none(), util::Parameters()).get()->form(true);
  Gen g(declared, dlen, out);
  bool raised = false;
  try { g.generate_and_check(); } catch (std::invalid_argument& e) { raised = true; }
  printf("{\"raised\": %d, \"inferred_set\": %d}\n", (int)raised, (int)g.inferred());
  fflush(stdout); _Exit(0);
}
'''


def native_generate(dlen, glen, hasform, match):
    from . import fullnative, build
    import subprocess, os, json, hashlib
    # linked against the whole natively built library (NumpyArray / forms are needed)
    exe = fullnative.link_driver(NATIVE, 'gen')
    r = subprocess.run([exe, str(dlen), str(glen), str(int(hasform)), str(int(match))], capture_output=True, text=True, timeout=30,
                       env=dict(os.environ, ASAN_OPTIONS='detect_leaks=0', UBSAN_OPTIONS='halt_on_error=1:exitcode=87'), errors='replace')
    try:
        return json.loads(r.stdout.strip().splitlines()[-1])
    except (ValueError, IndexError):
        return dict(outcome='crash(%d)' % r.returncode, log=r.stderr[-300:])


@guard
def h_generate_and_check(hasform):
    gslots, gn = vtable_slots(module_of(AG), 'N7awkward14SliceGeneratorE')
    cslots, cn = vtable_slots(module_of(SRC['EA']), 'N7awkward10EmptyArrayE')
    fslots, fnn = vtable_slots(module_of(SRC['EA']), 'N7awkward9EmptyFormE')

    def find(slots, frag):
        for s, k in slots.items():
            if frag in s:
                return k
        raise Unsupported('vtable slot %s not found' % frag)
    k_gen, k_len, k_form, k_equal = find(gslots, '8generateEv'), find(cslots, '6lengthEv'), find(cslots, '4formEb'), find(fslots, '5equalERKSt10shared_ptrINS_4FormEEbbbb')
    glen, dlen = z3.BitVec('glen', 64), z3.BitVec('dlen', 64)
    formok = z3.Bool('form_matches')

    def ret_ptr(st, sret, p):
        rec = st.mem.o[sret.obj]
        rec.cells[sret.off] = (p, 8)
        rec.cells[sret.off + 8] = (NULL, 8)

    def s_generate(eng, fr, ins, st, name, argv):
        ret_ptr(st, argv[0], Ptr('generated', 0))
        return None

    def s_form(eng, fr, ins, st, name, argv):
        ret_ptr(st, argv[0], Ptr('genform', 0))
        return None
    stubs = dict(COMMON_STUBS)
    stubs.update({'vf$g%d' % k_gen: s_generate, 'vf$c%d' % k_len: lambda *a: glen, 'vf$c%d' % k_form: s_form,
                  'vf$f%d' % k_equal: lambda *a: z3.If(formok, z3.BitVecVal(1, 1), z3.BitVecVal(0, 1)),
                  'vf$f*': nodeh.s_empty_string,
                  '_ZNSt7__cxx1112basic_stringIcSt11char_traitsIcESaIcEEC1EPKcRKS3_': nodeh.s_empty_string, '_ZNSt7__cxx1112basic_stringIcSt11char_traitsIcESaIcEEC2EPKcRKS3_': nodeh.s_empty_string,
                  '_ZStplIcSt11char_traitsIcESaIcEENSt7__cxx1112basic_stringIT_T0_T1_EE*': nodeh.s_empty_string, '_ZNSt7__cxx119to_stringEl': nodeh.s_empty_string,
                  '_ZNSt16invalid_argumentC1ERKNSt7__cxx1112basic_stringIcSt11char_traitsIcESaIcEEE': lambda *a: None})
    m = MCtx([AG], unwind=6, stubs=stubs)
    m.assume(glen >= 0, glen <= 2 ** 40, dlen >= -1, dlen <= 2 ** 40)
    m.record('gvt', {8 * j: (Ptr(('func', 'vf$g%d' % j), 0), 8) for j in range(gn)}, const=True)
    m.record('cvt', {8 * j: (Ptr(('func', 'vf$c%d' % j), 0), 8) for j in range(cn)}, const=True)
    m.record('fvt', {8 * j: (Ptr(('func', 'vf$f%d' % j), 0), 8) for j in range(fnn)}, const=True)
    m.record('generated', {0: (Ptr('cvt', 0), 8)}, const=True)
    m.record('genform', {0: (Ptr('fvt', 0), 8)}, const=True)
    m.record('declform', {0: (Ptr('fvt', 0), 8)}, const=True)
    m.record('oldform', {0: (Ptr('fvt', 0), 8)}, const=True)
    this = m.record('gen', {0: (Ptr('gvt', 0), 8), 8: (Ptr('declform', 0) if hasform else NULL, 8), 16: (NULL, 8), 24: (Ptr('oldform', 0), 8), 32: (NULL, 8), 40: (dlen, 8)})
    m.record('ret', {})
    out = m.call('_ZN7awkward14ArrayGenerator18generate_and_checkEv', [Ptr('ret', 0), this])
    short = z3.And(dlen >= 0, dlen > glen)
    bad = z3.Or(short, z3.Not(formok)) if hasform else short
    inferred = m.cell('gen', 24)

    def is_obj(p, name):
        return z3.Or([g for g, q in ptr_cases(p) if q.obj == name] + [z3.BoolVal(False)])
    obls = [('raises exactly when the generated array is shorter than declared%s' % (' or its form differs from the declared form' if hasform else ''), z3.simplify(out.raised) != bad),
            ('a rejected generation leaves the inferred form as it was', z3.And(out.raised, z3.Not(is_obj(inferred, 'oldform'))))]
    if hasform:
        obls.append(('with a declared form nothing is inferred', z3.Not(is_obj(inferred, 'oldform'))))
    else:
        obls.append(('an accepted generation records the generated form as the inferred form', z3.And(z3.Not(out.raised), z3.Not(is_obj(inferred, 'genform')))))
    obls.append(('an accepted generation returns the generated array', z3.And(z3.Not(out.raised), z3.Not(is_obj(m.cell('ret', 0), 'generated')))))

    def replay(model, ent):
        ev = lambda e: model.eval(e, model_completion=True)
        D, G, FM = ev(dlen).as_signed_long(), ev(glen).as_signed_long(), z3.is_true(ev(formok))
        if G > 1000:
            return False, 'generated length too large to replay', dict(dlen=D, glen=G)
        res = native_generate(D, G, hasform, FM)
        want = (D >= 0 and D > G) or (hasform and not FM)
        payload = dict(declared_length=D, generated_length=G, declared_form=hasform, form_matches=FM, native=res)
        # native twin starts with no inferred form: a rejected generation must leave it unset
        if res.get('raised') != int(want) or (want and res.get('inferred_set') != 0) or (not want and not hasform and res.get('inferred_set') != 1):
            return True, 'generator declared length %d%s, generated length %d, form %s: native %s; expected %s' % (
                D, ' and a form' if hasform else '', G, 'matches' if FM else 'differs', res, 'an error and no inferred form' if want else 'acceptance'), payload
        return False, 'native generator agrees (%s)' % res, payload
    return mdischarge(m, 'ArrayGenerator::generate_and_check %s' % ('with a declared form' if hasform else 'without a declared form'), obls,
                      [('rejected', out.raised), ('accepted', z3.Not(out.raised))], replay=replay, prefer=[glen <= 5, dlen <= 8],
                      extra=dict(bounds='any declared / generated length <= 2^40; form comparison outcome symbolic'))





# ------------------------------------------------------------------------------------------------ VirtualArray::array(): cache hit / miss / failed generation
VA = 'src/libawkward/array/VirtualArray.cpp'

NATIVE_VA = r'''
#include <cstdio>
#include <cstdlib>
#include <stdexcept>
#include <string>
#include "awkward/virtual/ArrayGenerator.h"
#include "awkward/virtual/ArrayCache.h"
#include "awkward/array/VirtualArray.h"
#include "awkward/array/NumpyArray.h"
#include "awkward/Index.h"
using namespace awkward;
static int generated = 0;
static ContentPtr mk(int64_t n, int64_t base) { Index64 idx(n); for (int64_t i = 0; i < n; i++) idx.data()[i] = base + i; return std::make_shared<NumpyArray>(idx); }
class Gen : public ArrayGenerator {
public:
  bool fails;
  Gen(bool f): ArrayGenerator(FormPtr(nullptr), 3), fails(f) { }
  const ContentPtr generate() const override { generated++; return fails ? mk(1, 500) : mk(3, 500); }      // too short = rejected by generate_and_check
  void caches(std::vector<ArrayCachePtr>&) const override { }
  const std::string tostring_part(const std::string&, const std::string&, const std::string&) const override { return ""; }
  const std::shared_ptr<ArrayGenerator> shallow_copy() const override { return std::make_shared<Gen>(fails); }
  const std::shared_ptr<ArrayGenerator> with_form(const FormPtr&) const override { return shallow_copy(); }
  const std::shared_ptr<ArrayGenerator> with_length(int64_t) const override { return shallow_copy(); }
  bool referentially_equal(const std::shared_ptr<ArrayGenerator>&) const override { return false; }
};
class Cache : public ArrayCache {
public:
  ContentPtr held; ContentPtr stored;
  Cache(ContentPtr h): held(h), stored(nullptr) { }
  ContentPtr get(const std::string&) const override { return held; }
  void set(const std::string&, const ContentPtr& v) override { stored = v; }
  bool is_broken() const override { return false; }
  const std::string tostring_part(const std::string&, const std::string&, const std::string&) const override { return ""; }
};
static const char* which(const ContentPtr& p) { if (p.get() == nullptr) return "nothing"; return p.get()->getitem_at_nowrap(0).get()->tojson(false, -1) == "100" ? "cached" : "generated"; }
int main(int argc, char** argv) {
  bool has_cache = atoi(argv[1]) != 0, hit = atoi(argv[2]) != 0, fails = atoi(argv[3]) != 0;
  std::shared_ptr<Cache> cache = std::make_shared<Cache>(hit ? mk(3, 100) : ContentPtr(nullptr));
  VirtualArray va(Identities::none(), util::Parameters(), std::make_shared<Gen>(fails), has_cache ? cache : ArrayCachePtr(nullptr), "key");
  bool raised = false; ContentPtr out(nullptr);
  try { out = va.array(); } catch (std::exception& e) { raised = true; }
  printf("{\"raised\": %d, \"generated\": %d, \"returned\": \"%s\", \"stored\": \"%s\"}\n", (int)raised, generated, which(out), which(cache->stored));
  fflush(stdout); _Exit(0);
}
'''


def native_virtual(has_cache, hit, fails):
    from . import fullnative
    import subprocess, os, json
    exe = fullnative.link_driver(NATIVE_VA, 'virt')
    r = subprocess.run([exe, str(int(has_cache)), str(int(hit)), str(int(fails))], capture_output=True, text=True, timeout=30,
                       env=dict(os.environ, ASAN_OPTIONS='detect_leaks=0', UBSAN_OPTIONS='halt_on_error=1:exitcode=87'), errors='replace')
    try:
        return json.loads(r.stdout.strip().splitlines()[-1])
    except (ValueError, IndexError):
        return dict(outcome='crash(%d)' % r.returncode, log=r.stderr[-300:])


@guard
def h_virtual_array(has_cache):
    """VirtualArray::array(): a cached array is returned as it is and the generator is not run; on a miss (or without a cache) the generator's
    checked result is returned and stored under the array's key; a generation that fails stores nothing"""
    from .cpp01 import struct_of
    mod = module_of(VA)
    fo, sz, al, fields = mod.types.struct_layout(struct_of(mod, '_ZNK7awkward12VirtualArray5arrayEv'))
    hit, genfails = z3.Bool('cache_hit'), z3.Bool('generation_fails')
    trace = []

    def ret_ptr(st, sret, p):
        rec = st.mem.o[sret.obj]
        rec.cells[sret.off] = (p, 8)
        rec.cells[sret.off + 8] = (NULL, 8)

    def s_get(eng, fr, ins, st, name, argv):
        trace.append(('get', st.pc))
        from .llbmc import ite
        ret_ptr(st, argv[0], ite(hit, Ptr('cached', 0), NULL))
        return None

    def s_set(eng, fr, ins, st, name, argv):
        val = eng.load(st, argv[2], '%"class.awkward::Content"*', fr.mod, 'stub')
        trace.append(('set', st.pc, val))
        return None

    def s_gen(eng, fr, ins, st, name, argv):
        trace.append(('generate', st.pc))
        ret_ptr(st, argv[0], Ptr('generated', 0))
        c = genfails
        return ('split', c)
    aslots, an = vtable_slots(module_of('src/libawkward/virtual/ArrayCache.cpp'), 'N7awkward10ArrayCacheE') if False else ({}, 8)
    stubs = dict(COMMON_STUBS)
    stubs.update({'vf$cache0': s_get, 'vf$cache1': s_set, 'vf$cache2': (lambda *a: z3.BitVecVal(0, 1)), 'vf$cache*': nodeh.s_empty_string,      # no virtual destructor: get, set, is_broken, tostring_part
                  '_ZN7awkward14ArrayGenerator18generate_and_checkEv': s_gen,
                  '_ZN7awkward9check_keyERKNSt7__cxx1112basic_stringIcSt11char_traitsIcESaIcEEE': lambda *a: z3.BitVecVal(0, 32),
                  '_ZN7awkward6kernel25fully_qualified_cache_keyENS0_3libERKNSt7__cxx1112basic_stringIcSt11char_traitsIcESaIcEEE': nodeh.s_empty_string,
                  '_ZNK7awkward12VirtualArray9cache_keyB5cxx11Ev': nodeh.s_empty_string})
    m = MCtx([VA], unwind=6, stubs=stubs)
    m.record('cachevt', {8 * j: (Ptr(('func', 'vf$cache%d' % j), 0), 8) for j in range(8)}, const=True)
    m.record('cache', {0: (Ptr('cachevt', 0), 8)}, const=True)
    m.record('cached', {0: (NULL, 8)}, const=True)
    m.record('generated', {0: (NULL, 8)}, const=True)
    m.record('gen', {0: (NULL, 8)}, const=True)
    cells = {0: (NULL, 8), fo[1]: (Ptr('gen', 0), 8), fo[1] + 8: (NULL, 8), fo[2]: (Ptr('cache', 0) if has_cache else NULL, 8), fo[2] + 8: (NULL, 8)}
    for k_ in range(len(fo)):
        if fields[k_].strip() == 'i32':
            cells[fo[k_]] = (z3.BitVecVal(0, 32), 4)
    # cache_key_: an empty small string
    for k_ in range(len(fo)):
        if 'basic_string' in fields[k_]:
            cells.update({fo[k_]: (Ptr('va', fo[k_] + 16), 8), fo[k_] + 8: (BV(0), 8), fo[k_] + 16: (z3.BitVecVal(0, 8), 1)})
    this = m.record('va', cells, const=True)
    m.record('ret', {})
    out = m.call('_ZNK7awkward12VirtualArray5arrayEv', [Ptr('ret', 0), this])
    ran = z3.Or([t[1] for t in trace if t[0] == 'generate'] + [z3.BoolVal(False)])
    sets = [t for t in trace if t[0] == 'set']
    stored = z3.Or([t[1] for t in sets] + [z3.BoolVal(False)])
    rp = m.cell('ret', 0)

    def is_obj(p, name):
        return z3.Or([g for g, q in ptr_cases(p) if q.obj == name] + [z3.BoolVal(False)])
    usehit = z3.And(hit, z3.BoolVal(has_cache))
    obls = [('the generator runs exactly when nothing is cached', ran != z3.Not(usehit)),
            ('raises exactly when the generation that is needed fails', z3.simplify(out.raised) != z3.And(z3.Not(usehit), genfails)),
            ('a cached array is returned as it is', z3.And(usehit, z3.Not(out.raised), z3.Not(is_obj(rp, 'cached')))),
            ('on a miss the generated array is returned', z3.And(z3.Not(usehit), z3.Not(out.raised), z3.Not(is_obj(rp, 'generated')))),
            ('a failed generation stores nothing in the cache', z3.And(out.raised, stored))]
    if has_cache:
        obls.append(('a successful call leaves the returned array in the cache', z3.And(z3.Not(out.raised), z3.Not(stored))))
        for t in sets:
            obls.append(('what is stored is what is returned', z3.And(t[1], z3.Not(out.raised), z3.Not(z3.Or(z3.And(is_obj(t[2], 'cached'), is_obj(rp, 'cached')), z3.And(is_obj(t[2], 'generated'), is_obj(rp, 'generated')))))))
    else:
        obls.append(('without a cache nothing is stored', stored))
    def replay(model, ent):
        H, F = z3.is_true(model.eval(hit, model_completion=True)), z3.is_true(model.eval(genfails, model_completion=True))
        res = native_virtual(has_cache, H, F)
        use = has_cache and H
        want = dict(raised=int((not use) and F), generated=int(not use), returned=('cached' if use else 'generated'))
        payload = dict(has_cache=has_cache, cache_hit=H, generation_fails=F, native=res, expected=want)
        bad = res.get('raised') != want['raised'] or res.get('generated') != want['generated']
        if not want['raised']:
            bad = bad or res.get('returned') != want['returned'] or (has_cache and res.get('stored') != want['returned'])
        else:
            bad = bad or res.get('stored') not in (None, 'nothing')
        if not has_cache and res.get('stored') not in (None, 'nothing'):
            bad = True
        if bad:
            return True, 'VirtualArray %s, cache %s, generation %s: native %s; expected %s' % ('with a cache' if has_cache else 'without a cache', 'hit' if H else 'miss', 'fails' if F else 'succeeds', res, want), payload
        return False, 'native VirtualArray agrees (%s)' % res, payload
    return mdischarge(m, 'VirtualArray::array %s' % ('with a cache' if has_cache else 'without a cache'), obls, [('cache hit', usehit), ('generation fails', z3.And(z3.Not(usehit), genfails))] if has_cache else [('generation fails', genfails)],
                      replay=replay, extra=dict(bounds='cache hit / miss and generator success / failure symbolic; cache and generator are opaque test doubles; key strings stubbed'))


def jobs(tier):
    return [(h_generate_and_check, (False,), 1800), (h_generate_and_check, (True,), 1800), (h_virtual_array, (True,), 1800), (h_virtual_array, (False,), 1800)]
