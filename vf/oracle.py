"""Oracle harness framework (K- and P-harnesses of DESIGN 2.5).

A harness declares symbolic arguments with documented preconditions, calls one or more kernels through llbmc
(`kcall`), and states its oracle as a Python function of an IO object.  The same oracle function is evaluated
(a) on the symbolic final state -> violation conditions for the solver, and (b) on the outputs of the natively
compiled kernel run on the solver's model -> replay.  Only replayed violations are reported.
"""
import time, json
import z3
from . import kspec, native
from .kharness import Ctx, widen, fp_to_py
from .llbmc import Ptr, Unsupported, bv64


class Harness(Ctx):
    def __init__(self, cnames, **kw):
        Ctx.__init__(self, cnames, **kw)
        self.calls = []         # for replay: dict(cname, args=[...driver arg descriptors...])
        self.cap_c = {}         # array name -> C expression for its capacity (pipelines)
        self.notes = []

    # ---- declaring arguments
    def arr(self, name, ctype, cap, const=False, cap_c=None, expr=None):
        p = self.array(name, ctype, cap, const=const, expr=expr)
        if cap_c is not None:
            self.cap_c[name] = cap_c
        return p

    def elem(self, name, i):
        """current (possibly already written) value of array element, unwidened"""
        return z3.Select(self.final_arr(name), bv64(i))

    def kcall(self, cname, args, void=False):
        """args: 'scalarname' | ('buf', arr) | ('elem', arr, idx) | ('const', ctype, value) | ('ptrs', ctype, [arrs])"""
        zargs, dargs = [], []
        for a in args:
            if isinstance(a, str):
                v, ctype = self.scalars[a]
                zargs.append(v); dargs.append(('scalar', a))
            elif a[0] == 'buf':
                zargs.append(Ptr(self.arrays[a[1]].obj, z3.BitVecVal(0, 64))); dargs.append(('buf', a[1]))
            elif a[0] == 'elem':
                zargs.append(self.elem(a[1], a[2])); dargs.append(('expr', '%s[%d]' % (a[1], a[2])))
            elif a[0] == 'const':
                kind, bits, signed = kspec.CT[a[1]]
                zargs.append(z3.BitVecVal(int(a[2]), 1 if kind == 'b' else bits)); dargs.append(('lit', a[1], a[2]))
            elif a[0] == 'ptrs':
                nm = 'pp%d' % len(self.calls)
                zargs.append(self.ptr_array(nm, [Ptr(self.arrays[x].obj, z3.BitVecVal(0, 64)) for x in a[2]]))
                dargs.append(('ptrs', a[1], list(a[2])))
            else:
                raise ValueError(a)
        self.calls.append(dict(cname=cname, args=dargs, void=void))
        if void:
            return self.call_void(cname, zargs)
        return self.call(cname, zargs)


class SymIO:
    """oracle's view of the symbolic run"""
    concrete = False

    def __init__(self, h):
        self.h = h

    def sc(self, name):
        v, ctype = self.h.scalars[name]
        kind, bits, signed = kspec.CT[ctype]
        if kind == 'f':
            return v
        if kind == 'b':
            return v == 1
        return widen(v, signed)

    def x(self, name, i):
        return self.h.init(name, i)

    def y(self, name, i):
        return self.h.out(name, i)

    def err(self, k=-1):
        return self.h.errs[k][2]

    def cap(self, name):
        return self.h.arrays[name].cap


class ConcIO:
    """oracle's view of the native run on the model's inputs"""
    concrete = True

    def __init__(self, h, model, inputs, nat):
        self.h, self.m, self.inputs, self.nat = h, model, inputs, nat
        self.final = nat['results'][-1]['bufs'] if nat['results'] else {}

    def sc(self, name):
        v, ctype = self.h.scalars[name]
        kind, bits, signed = kspec.CT[ctype]
        mv = self.m.eval(v, model_completion=True)
        if kind == 'f':
            return mv
        if kind == 'b':
            return z3.BoolVal(bool(mv.as_long()))
        return widen(mv, signed)

    def _val(self, a, v):
        if a.kind == 'f':
            if isinstance(v, str):
                v = float(v)
            return z3.FPVal(v, z3.Float32() if a.bits == 32 else z3.Float64())
        return z3.BitVecVal(int(v), 64)

    def x(self, name, i):
        a = self.h.arrays[name]
        i = z3.simplify(self.m.eval(bv64(i), model_completion=True)).as_signed_long()
        vals = self.inputs['arrays'][name]['values']
        if 0 <= i < len(vals):
            return self._val(a, vals[i])
        mv = self.m.eval(self.h.init(name, i), model_completion=True)
        return mv

    def y(self, name, i):
        a = self.h.arrays[name]
        i = z3.simplify(self.m.eval(bv64(i), model_completion=True))
        i = i.as_signed_long()
        vals = self.final.get(name)
        if vals is None or not (0 <= i < len(vals)):
            return z3.FreshConst(z3.BitVecSort(64) if a.kind != 'f' else (z3.Float32() if a.bits == 32 else z3.Float64()), 'oob')
        return self._val(a, vals[i])

    def err(self, k=-1):
        rs = self.nat['results']
        k = k if k >= 0 else len(self.h.errs) + k
        if k >= len(rs):
            return z3.BoolVal(False)
        return z3.BoolVal(rs[k]['err'] is not None)

    def cap(self, name):
        return z3.BitVecVal(self.inputs['arrays'][name]['cap'], 64)


def native_run(h, model, maxcap=64):
    inputs = h.concretize(model, maxcap=maxcap)
    bufs = {}
    for name, a in h.arrays.items():
        info = inputs['arrays'][name]
        cap = h.cap_c.get(name, int(max(0, min(info['cap'], 100000))))
        bufs[name] = dict(ctype=a.ctype, cap=cap, values=info['values'], sparse=info.get('sparse'), fill=info.get('fill', 0))
    calls = []
    for c in h.calls:
        args = []
        for d in c['args']:
            if d[0] == 'scalar':
                v, ctype = h.scalars[d[1]]
                args.append(('lit', ctype, inputs['scalars'][d[1]]))
            else:
                args.append(d)
        calls.append(dict(cname=c['cname'], args=args, void=c.get('void', False)))
    nat = native.run_calls(calls, bufs)
    return inputs, nat


def discharge(h, unit, oracle, twins=(), timeout_ms=30000, want_replay=True, extra=None):
    """solve every oracle/engine obligation; replay sat ones.  -> result dict (picklable)"""
    res = dict(unit=unit, obligations=[], twins={}, status='ok', violations=[], unreproduced=[])
    if extra:
        res.update(extra)
    sym = SymIO(h)
    obls = [('oracle', n, c) for n, c in oracle(sym)]
    obls += [(o.kind, o.desc + ' @ ' + o.where[:80], o.cond) for o in h.eng.obl]
    seen = set()
    nunk = 0
    replayed = 0
    for kind, name, cond in obls:
        key = (kind, cond.hash())
        if key in seen:
            continue
        seen.add(key)
        t0 = time.time()
        r, m = h.solve(cond, timeout_ms)
        ent = dict(kind=kind, name=name[:140], result=str(r), t=round(time.time() - t0, 2))
        res['obligations'].append(ent)
        if r == z3.sat and want_replay and replayed < 3:
            replayed += 1
            try:
                inputs, nat = native_run(h, m)
            except Exception as e:      # noqa
                res['unreproduced'].append(dict(obligation=ent, why='replay failed: %s: %s' % (type(e).__name__, e)))
                continue
            conf, why = False, ''
            if nat['status'] in ('sanitizer', 'crash', 'timeout'):
                conf = True
                lines = [l for l in nat['log'].splitlines() if 'ERROR' in l or 'runtime error' in l or 'SUMMARY' in l]
                why = 'native run: %s %s' % (nat['status'], ' | '.join(lines[:2]))
            elif nat['results'] and not nat['results'][-1].get('skip'):
                cio = ConcIO(h, m, inputs, nat)
                try:
                    for n2, c2 in oracle(cio):
                        v = z3.simplify(c2)
                        if z3.is_true(v):
                            conf, why = True, 'oracle "%s" violated by the native outputs' % n2
                            break
                        if not z3.is_false(v):
                            pass
                except Exception as e:      # noqa
                    why = 'concrete oracle evaluation failed: %s: %s' % (type(e).__name__, e)
            if conf:
                res['violations'].append(dict(obligation=ent, why=why, inputs=inputs,
                                              native=dict(status=nat['status'], results=nat['results'], log=nat['log'][-800:])))
            else:
                res['unreproduced'].append(dict(obligation=ent, why=why or 'native outputs satisfy the oracle', inputs=inputs,
                                                native=dict(status=nat['status'], results=nat['results'][-1:] if nat['results'] else [])))
        elif r == z3.sat:
            res['unreproduced'].append(dict(obligation=ent, why='replay budget exhausted'))
        elif r != z3.unsat:
            nunk += 1
    for n, c in twins:
        r, _ = h.solve(c, timeout_ms)
        res['twins'][n] = str(r)
    # translator validation (DESIGN 2.7): run the natively compiled kernels on a model of the premises and compare every cell of every
    # writable buffer with the value the encoding predicts (sampled by unit name and VERIF_SEED in the quick tier)
    if not res['violations'] and not res['unreproduced'] and nunk == 0 and _sampled(unit):
        try:
            res['validated'] = validate_encoding(h, [c for _, c in twins], timeout_ms)
        except Exception as e:      # noqa
            res['validated'] = dict(ok=None, why='%s: %s' % (type(e).__name__, e))
    if res['violations']:
        res['status'] = 'violation'
    elif res['unreproduced']:
        res['status'] = 'unreproduced'
    elif nunk:
        res['status'] = 'inconclusive'
    if any(v == 'unsat' for v in res['twins'].values()):
        res['status'] = 'vacuous' if res['status'] == 'ok' else res['status']
    res['funcs'] = sorted(h.eng.stats['funcs'])
    res['instrs'] = h.eng.stats['instrs']
    return res


def _sampled(unit):
    import os, zlib
    if os.environ.get('VERIF_TIER', 'quick') == 'thorough':
        return True
    try:
        seed = int(os.environ.get('VERIF_SEED', '0'))
    except ValueError:
        seed = 0
    return (zlib.crc32(unit.encode()) + seed) % 3 == 0


def validate_encoding(h, twin_conds, timeout_ms):
    m = None
    for c in twin_conds:                      # prefer an interesting model (a reachability twin)
        r, m = h.solve(c, timeout_ms)
        if r == z3.sat:
            break
        m = None
    if m is None:
        r, m = h.solve(z3.BoolVal(True), timeout_ms)
        if r != z3.sat:
            return dict(ok=None, why='no model')
    inputs, nat = native_run(h, m)
    if nat['status'] != 'ok' or not nat['results'] or nat['results'][-1].get('skip'):
        return dict(ok=None, why='native run: %s' % nat['status'])
    final = nat['results'][-1]['bufs']
    ncell, bad = 0, []
    for k, (cname, en, iserr) in enumerate(h.errs):
        if k < len(nat['results']):
            ne = nat['results'][k]['err'] is not None
            if z3.is_true(m.eval(iserr, model_completion=True)) != ne:
                bad.append(('status of call %d' % k, ne))
    any_err = any(r['err'] is not None for r in nat['results'])
    if not any_err:
        for name, a in h.arrays.items():
            if a.const or name not in final:
                continue
            o = h.mem.o[a.obj]
            for i, nv in enumerate(final[name][:64]):
                mv = m.eval(z3.Select(o.arr, z3.BitVecVal(i, 64)), model_completion=True)
                if a.kind == 'f':
                    pv = fp_to_py(mv)
                    nvv = float(nv) if not isinstance(nv, str) else float(nv)
                    same = (pv != pv and nvv != nvv) or pv == nvv
                else:
                    pv = mv.as_signed_long() if a.signed else mv.as_long()
                    same = (bool(pv) == bool(nv)) if a.kind == 'b' else pv == int(nv)
                ncell += 1
                if not same:
                    bad.append((name, i, pv, nv))
    if bad:
        return dict(ok=False, why='encoding and native run differ: %s' % (bad[:3],))
    return dict(ok=True, cells=ncell)


def guard(fn):
    """decorator: Unsupported -> result with status 'unsupported'"""
    import functools

    @functools.wraps(fn)
    def w(*a, **k):
        try:
            return fn(*a, **k)
        except Unsupported as e:
            return dict(unit='%s%s' % (fn.__name__, tuple(a)), status='unsupported', detail=str(e),
                        obligations=[], twins={}, violations=[], unreproduced=[])
    return w


def summarize(report, results, prop):
    """aggregate harness results into the report and a coverage dict (model_checking level)"""
    nobl = ndis = nq = 0
    nontriv = nvalid = 0
    mism = []
    funcs = set()
    samples = []
    inconcl, unsup, vac = [], [], []
    for r in results:
        st = r.get('status')
        for o in r.get('obligations', []):
            nobl += 1; nq += 1
            if o['result'] == 'unsat':
                ndis += 1
        tw = r.get('twins', {})
        nq += len(tw)
        nontriv += sum(1 for v in tw.values() if v == 'sat')
        funcs.update(r.get('funcs', []))
        v_ = r.get('validated') or {}
        if v_.get('ok') is True:
            nvalid += 1
        elif 'ok' in v_ and v_.get('ok') is None and 'no model' not in str(v_.get('why')):
            # the replay driver did not build / run: nothing this harness would "confirm" or "not reproduce" can be believed
            report.harness_errors.append('REPLAY DRIVER BROKEN in %s: %s' % (r['unit'], str(v_.get('why'))[-300:]))
            mism.append(r['unit'])
        elif v_.get('ok') is False:
            report.harness_errors.append('ENCODING MISMATCH in %s: %s' % (r['unit'], v_.get('why')))
            mism.append(r['unit'])
        if st == 'violation':
            for v in r['violations']:
                ob = v['obligation']
                key = '%s|%s:%s' % (r['unit'], ob['kind'], ob['name'].split(' @ ')[0][:60])
                path = report.save_replay(r['unit'].replace('/', '_').replace(' ', '_')[:80], dict(unit=r['unit'], **v))
                report.violation(key, path, '%s: %s "%s" - %s' % (r['unit'], ob['kind'], ob['name'][:80], v['why']))
        if st == 'unreproduced':
            for u in r['unreproduced']:
                report.harness_errors.append('unreproduced counterexample in %s: %s (%s)' % (r['unit'], u['obligation']['name'][:60], u.get('why')))
            inconcl.append(r['unit'])
        if st in ('inconclusive', 'timeout'):
            inconcl.append(r['unit'])
        if st in ('unsupported', 'harness-error'):
            unsup.append([r['unit'], r.get('detail')])
            report.harness_errors.append('NOT COVERED (code outside the encoder or harness failure): %s - %s' % (r['unit'], str(r.get('detail'))[:160]))
        if st == 'vacuous':
            vac.append(r['unit'])
            report.harness_errors.append('vacuous harness %s: twins %s' % (r['unit'], r.get('twins')))
        if st == 'ok' and len(samples) < 8 and r.get('obligations'):
            samples.append(dict(unit=r['unit'], bounds=r.get('bounds'), obligations=r['obligations'][:3], twins=tw))
    cov = dict(states=max(1, len(results)), transitions=max(1, nobl), traces_validated_against_impl=nvalid, encoding_mismatches=mism,
               obligations=nobl, discharged=ndis, evaluations=max(1, nq), distinct_nontrivial=nontriv,
               samples=samples or [dict(note='no passing harness')], functions_encoded=sorted(funcs)[:200],
               inconclusive=sorted(set(inconcl)), not_encodable=unsup, vacuous=vac,
               rule='state = one harness instance (unit x size case); transition/obligation = one solver query '
                    '(negated oracle clause, access bound, division, unwinding); non-trivial = reachability twin sat')
    return cov
