"""specpy - symbolic interpreter (predicated execution) for the Python `definition:` blocks of
kernel-specification.yml.  One formula per definition, no solver calls while encoding.

Integers are 64-bit vectors carrying *no-overflow assumptions* (Python ints are unbounded; inputs on which
the definition's own arithmetic leaves int64 are outside the claim).  Floats are z3 FP in a precision the
caller chooses (the output's).  `raise ValueError` sets the error outcome; later statements are inactive.
"""
import ast
import z3

W = 64


class SpecNotExecutable(Exception):
    pass


def bv(x):
    return z3.BitVecVal(x, W) if isinstance(x, int) else x


def is_bool(v):
    return z3.is_bool(v)


def to_int(v):
    if z3.is_bool(v):
        return z3.If(v, bv(1), bv(0))
    return v


def specpy_to_int(v):
    return to_int(v)


class SArr:
    """array as seen by the definition: arr maps BV64 index -> BV64 (ints/bools, widened) or FP"""
    __slots__ = ('name', 'arr', 'fp', 'out')

    def __init__(self, name, arr, fp=None, out=False):
        self.name, self.arr, self.fp, self.out = name, arr, fp, out


class Spec:
    def __init__(self, src, K, fp_sort=None, helpers=None, name=None):
        try:
            tree = ast.parse(src)
        except SyntaxError as e:
            raise SpecNotExecutable('definition does not parse: %s' % e)
        fns = [n for n in tree.body if isinstance(n, ast.FunctionDef)]
        if not fns:
            raise SpecNotExecutable('no function definition')
        self.fn = fns[0]
        self.K = K
        self.fp_sort = fp_sort
        self.helpers = helpers or {}
        self.err = z3.BoolVal(False)       # raised ValueError
        self.ret = z3.BoolVal(False)       # returned early
        self.acc = []                      # (guard, array name, index, 'r'|'w')
        self.assume = []                   # int64 no-overflow assumptions
        self.unwind = []                   # guard under which a loop would run more than K times
        self.divzero = []
        self.env = {}

    def params(self):
        return [a.arg for a in self.fn.args.args]

    def run(self, args):
        self.env = dict(args)
        self.env.setdefault('kSliceNone', bv(2 ** 63 - 1))
        self.env.setdefault('kMaxInt64', bv(2 ** 63 - 2))
        self.block(self.fn.body, z3.BoolVal(True))

    # ------------------------------------------------------------ statements
    def act(self, a):
        return z3.simplify(z3.And(a, z3.Not(self.err), z3.Not(self.ret)))

    def block(self, stmts, a):
        for s in stmts:
            self.stmt(s, a)

    def assign_name(self, name, v, a):
        old = self.env.get(name)
        if old is None or z3.is_true(a):
            self.env[name] = v
            return
        if isinstance(old, SArr) or isinstance(v, SArr):
            raise SpecNotExecutable('array rebinding of %s' % name)
        v, old = self.unify(v, old)
        self.env[name] = z3.If(a, v, old)

    def unify(self, x, y):
        if z3.is_fp(x) and not z3.is_fp(y):
            return x, self.to_fp(y, x.sort())
        if z3.is_fp(y) and not z3.is_fp(x):
            return self.to_fp(x, y.sort()), y
        if z3.is_bool(x) and z3.is_bool(y):
            return x, y
        return to_int(x), to_int(y)

    def to_fp(self, v, sort=None):
        if sort is None:
            sort = self.fp_sort if self.fp_sort is not None else z3.Float64()
        if z3.is_fp(v):
            return v if v.sort() == sort else z3.fpFPToFP(z3.RNE(), v, sort)
        return z3.fpSignedToFP(z3.RNE(), to_int(v), sort)

    def store(self, tgt, v, a):
        name, idx = self.subscript_target(tgt, a)
        arr = self.env[name]
        self.acc.append((a, name, idx, 'w'))
        if arr.fp is not None:
            v = self.to_fp(v, arr.fp)
        else:
            if z3.is_fp(v):
                raise SpecNotExecutable('float stored into integer array %s' % name)
            v = to_int(v)
        new = z3.Store(arr.arr, idx, v)
        self.env[name] = SArr(name, new if z3.is_true(a) else z3.If(a, new, arr.arr), arr.fp, arr.out)

    def subscript_target(self, t, a):
        if not isinstance(t.value, ast.Name):
            raise SpecNotExecutable('nested subscript ' + ast.unparse(t))
        name = t.value.id
        if name not in self.env or not isinstance(self.env[name], SArr):
            raise SpecNotExecutable('subscript of non-array %s' % name)
        idx = to_int(self.ev(t.slice, a))
        return name, idx

    def stmt(self, s, a):
        a = self.act(a)
        if z3.is_false(a):
            return
        if isinstance(s, ast.Assign):
            if len(s.targets) != 1:
                raise SpecNotExecutable('multiple assignment')
            t = s.targets[0]
            v = self.ev(s.value, a)
            if isinstance(t, ast.Name):
                self.assign_name(t.id, v, a)
            elif isinstance(t, ast.Subscript):
                self.store(t, v, a)
            else:
                raise SpecNotExecutable('assignment target ' + ast.dump(t)[:60])
        elif isinstance(s, ast.AugAssign):
            self.stmt(ast.Assign([s.target], ast.BinOp(s.target, s.op, s.value)), a)
        elif isinstance(s, ast.If):
            c = self.tobool(self.ev(s.test, a))
            self.block(s.body, z3.And(a, c))
            self.block(s.orelse, z3.And(a, z3.Not(c)))
        elif isinstance(s, ast.For):
            self.do_for(s, a)
        elif isinstance(s, ast.While):
            for it in range(self.K):
                c = self.tobool(self.ev(s.test, self.act(a)))
                a = z3.And(a, c)
                if z3.is_false(self.act(a)):
                    break
                self.block(s.body, a)
            else:
                c = self.tobool(self.ev(s.test, self.act(a)))
                self.unwind.append(z3.And(self.act(a), c))
        elif isinstance(s, ast.Raise):
            self.err = z3.simplify(z3.Or(self.err, a))
        elif isinstance(s, ast.Return):
            if s.value is not None and not (isinstance(s.value, ast.Constant) and s.value.value is None):
                raise SpecNotExecutable('return with value')
            self.ret = z3.simplify(z3.Or(self.ret, a))
        elif isinstance(s, ast.Expr):
            if isinstance(s.value, ast.Constant):
                return
            self.ev(s.value, a)
        elif isinstance(s, ast.Pass):
            return
        else:
            raise SpecNotExecutable('statement ' + type(s).__name__)

    def do_for(self, s, a):
        it = s.iter
        if not (isinstance(it, ast.Call) and isinstance(it.func, ast.Name) and it.func.id == 'range'):
            if isinstance(it, ast.Call) and isinstance(it.func, ast.Name):
                raise SpecNotExecutable('undefined function %s' % it.func.id)
            raise SpecNotExecutable('for over non-range')
        args = [to_int(self.ev(x, a)) for x in it.args]
        if len(args) == 1:
            lo, hi = bv(0), args[0]
        elif len(args) == 2:
            lo, hi = args
        else:
            raise SpecNotExecutable('range with step')
        if not isinstance(s.target, ast.Name):
            raise SpecNotExecutable('for target')
        i = s.target.id
        before = self.env.get(i)
        last = []          # (guard under which iteration k ran, value)
        for k in range(self.K):
            cur = z3.simplify(lo + k) if k else lo
            if k:
                self.assume.append(z3.Implies(a, z3.BVAddNoOverflow(lo, bv(k), True)))
            c = z3.And(a, cur < hi)
            ca = self.act(c)
            if z3.is_false(ca):
                break
            # inside the body the loop variable is simply `cur`: every statement of the body is guarded by c
            self.env[i] = cur
            last.append((ca, cur))
            self.block(s.body, c)
        else:
            self.assume.append(z3.Implies(a, z3.BVAddNoOverflow(lo, bv(self.K), True)))
            self.unwind.append(z3.And(self.act(a), lo + self.K < hi))
        # after the loop: value of the last iteration that ran (Python keeps it), else the previous binding
        val = before
        for ca, cur in last:
            val = cur if val is None else z3.If(ca, cur, specpy_to_int(val))
        if val is not None:
            self.env[i] = val

    # ------------------------------------------------------------ expressions
    def tobool(self, v):
        if z3.is_bool(v):
            return v
        if z3.is_fp(v):
            return z3.Not(z3.fpIsZero(v))
        return v != 0

    def arith(self, op, l, r, a):
        if z3.is_fp(l) or z3.is_fp(r):
            l, r = self.unify(l, r)
            rm = z3.RNE()
            from .llbmc import fp_comm
            if isinstance(op, ast.Add): return fp_comm('add', l, r)
            if isinstance(op, ast.Sub): return z3.fpSub(rm, l, r)
            if isinstance(op, ast.Mult): return fp_comm('mul', l, r)
            if isinstance(op, ast.Div): return z3.fpDiv(rm, l, r)
            raise SpecNotExecutable('float operator ' + type(op).__name__)
        l, r = to_int(l), to_int(r)
        A = self.assume
        if isinstance(op, ast.Add):
            A.append(z3.Implies(a, z3.And(z3.BVAddNoOverflow(l, r, True), z3.BVAddNoUnderflow(l, r))))
            return l + r
        if isinstance(op, ast.Sub):
            A.append(z3.Implies(a, z3.And(z3.BVSubNoOverflow(l, r), z3.BVSubNoUnderflow(l, r, True))))
            return l - r
        if isinstance(op, ast.Mult):
            A.append(z3.Implies(a, z3.And(z3.BVMulNoOverflow(l, r, True), z3.BVMulNoUnderflow(l, r))))
            return l * r
        if isinstance(op, ast.BitAnd): return l & r
        if isinstance(op, ast.BitOr): return l | r
        if isinstance(op, ast.BitXor): return l ^ r
        if isinstance(op, ast.RShift):
            return l >> r
        if isinstance(op, ast.LShift):
            A.append(z3.Implies(a, z3.And(r >= 0, r < 63, (l << r) >> r == l)))
            return l << r
        if isinstance(op, (ast.FloorDiv, ast.Div)):
            # Python floor division on ints; '/' appears once on values that divide exactly in the C code
            self.divzero.append(z3.And(a, r == 0))
            q = l / r                  # truncating
            rem = z3.SRem(l, r)
            adj = z3.And(rem != 0, (rem < 0) != (r < 0))
            if isinstance(op, ast.Div):
                A.append(z3.Implies(a, z3.Or(r == 0, rem == 0)))   # '/' only where it divides exactly
            return z3.If(adj, q - 1, q)
        if isinstance(op, ast.Mod):
            self.divzero.append(z3.And(a, r == 0))
            rem = z3.SRem(l, r)
            return z3.If(z3.And(rem != 0, (rem < 0) != (r < 0)), rem + r, rem)
        raise SpecNotExecutable('operator ' + type(op).__name__)

    def compare(self, op, l, r):
        if z3.is_fp(l) or z3.is_fp(r):
            l, r = self.unify(l, r)
            return {ast.Lt: z3.fpLT, ast.LtE: z3.fpLEQ, ast.Gt: z3.fpGT, ast.GtE: z3.fpGEQ, ast.Eq: z3.fpEQ,
                    ast.NotEq: lambda x, y: z3.Not(z3.fpEQ(x, y))}[type(op)](l, r)
        if z3.is_bool(l) and z3.is_bool(r):
            if isinstance(op, ast.Eq): return l == r
            if isinstance(op, ast.NotEq): return l != r
        l, r = to_int(l), to_int(r)
        return {ast.Lt: lambda: l < r, ast.LtE: lambda: l <= r, ast.Gt: lambda: l > r, ast.GtE: lambda: l >= r,
                ast.Eq: lambda: l == r, ast.NotEq: lambda: l != r}[type(op)]()

    def ev(self, e, a):
        if isinstance(e, ast.Constant):
            if isinstance(e.value, bool):
                return z3.BoolVal(e.value)
            if isinstance(e.value, int):
                return bv(e.value)
            if isinstance(e.value, float):
                return z3.FPVal(e.value, self.fp_sort if self.fp_sort is not None else z3.Float64())
            raise SpecNotExecutable('constant %r' % (e.value,))
        if isinstance(e, ast.Name):
            if e.id not in self.env:
                if e.id == 'True': return z3.BoolVal(True)
                if e.id == 'False': return z3.BoolVal(False)
                raise SpecNotExecutable('undefined name %s' % e.id)
            return self.env[e.id]
        if isinstance(e, ast.Subscript):
            name, idx = self.subscript_target(e, a)
            self.acc.append((a, name, idx, 'r'))
            return z3.Select(self.env[name].arr, idx)
        if isinstance(e, ast.BinOp):
            l, r = self.ev(e.left, a), self.ev(e.right, a)
            if isinstance(l, SArr) or isinstance(r, SArr):
                raise SpecNotExecutable('array used as value')
            return self.arith(e.op, l, r, a)
        if isinstance(e, ast.UnaryOp):
            v = self.ev(e.operand, a)
            if isinstance(e.op, ast.USub):
                if z3.is_fp(v): return z3.fpNeg(v)
                v = to_int(v)
                self.assume.append(z3.Implies(a, v != bv(-2 ** 63)))
                return -v
            if isinstance(e.op, ast.Not):
                return z3.Not(self.tobool(v))
            if isinstance(e.op, ast.Invert):
                return ~to_int(v)
            raise SpecNotExecutable('unary ' + type(e.op).__name__)
        if isinstance(e, ast.Compare):
            l = self.ev(e.left, a)
            res = []
            for op, c in zip(e.ops, e.comparators):
                r = self.ev(c, a)
                res.append(self.compare(op, l, r))
                l = r
            return res[0] if len(res) == 1 else z3.And(res)
        if isinstance(e, ast.BoolOp):
            # short-circuit matters for array reads: evaluate operands under the guard of the previous ones
            vals, g = [], a
            for v in e.values:
                b = self.tobool(self.ev(v, g))
                vals.append(b)
                g = z3.And(g, b if isinstance(e.op, ast.And) else z3.Not(b))
            return z3.And(vals) if isinstance(e.op, ast.And) else z3.Or(vals)
        if isinstance(e, ast.IfExp):
            c = self.tobool(self.ev(e.test, a))
            x, y = self.ev(e.body, z3.And(a, c)), self.ev(e.orelse, z3.And(a, z3.Not(c)))
            x, y = self.unify(x, y)
            return z3.If(c, x, y)
        if isinstance(e, ast.Call) and isinstance(e.func, ast.Name):
            f = e.func.id
            if f in ('float',):
                v = self.ev(e.args[0], a)
                if self.fp_sort is None:
                    return v       # identity for integer-only kernels (machine-translated C casts)
                return self.to_fp(v, self.fp_sort)
            if f == 'int':
                v = self.ev(e.args[0], a)
                if z3.is_fp(v):
                    self.assume.append(z3.Implies(a, z3.And(z3.Not(z3.fpIsNaN(v)), z3.Not(z3.fpIsInf(v)),
                                                            z3.fpLT(z3.fpAbs(v), z3.FPVal(2.0 ** 62, v.sort())))))
                    return z3.fpToSBV(z3.RTZ(), v, z3.BitVecSort(W))
                return to_int(v)
            if f == 'uint8':
                v = to_int(self.ev(e.args[0], a))
                return v & bv(0xFF)
            if f == 'bool':
                return self.tobool(self.ev(e.args[0], a))
            if f in self.helpers:
                return self.helpers[f](self, e, a)
            raise SpecNotExecutable('undefined function %s' % f)
        raise SpecNotExecutable('expression ' + type(e).__name__)
