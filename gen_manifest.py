#!/usr/bin/env python3
"""regenerates MANIFEST.json from the table below"""
import json

CLAIMED = {
 'C13': dict(cat='translation_validation', ref='DESIGN.md section 3 (C13)',
    text='Bounded translation validation: every extern "C" kernel specialization whose YAML definition is executable is '
         'compared with that definition by an SMT solver over all argument values inside the bound (loop trip counts <= 2 '
         'quick / <= 3 thorough, length-like scalars case-split, element values full width under the documented structural '
         'preconditions): same error status, same value in every cell the definition writes, every kernel access inside the '
         'extent the definition itself touches, no division by zero / over-wide shift. Counterexamples are replayed on the '
         'natively compiled kernel (ASan/UBSan) against CPython executing the definition before they are reported.',
    note='Trusted: clang++-14 -O1 IR as the kernel semantics, the llbmc IR->z3 encoder, specpy, z3. Outside the claim: sizes '
         'above the bound; kernels without an executable definition (listed in the evidence); pointer-to-pointer arguments '
         '(covered under C07/C05); inputs on which the definition itself overflows int64; complex-number kernels.',
    technique='SMT-based bounded translation validation (llbmc symbolic execution of LLVM IR vs specpy symbolic execution of the YAML definition, z3)'),
 'C11': dict(cat='model_checking', ref='DESIGN.md section 3 (C11)',
    text='Bounded model checking of the three validity kernels in every specialization: for arbitrary (valid and invalid) '
         'buffer contents and lengths <= 3 (quick) / 4 (thorough) the solver shows error <=> some documented rule is broken, and '
         'that the reported position is the first offender; plus closure obligations on index-producing kernels, and at the C++ method level: simplify_optiontype over nested '
         'indexed / option nodes and mergemany of indexed nodes never yield a non-option node with a negative index; every node-method harness of C01-C10, C12 and C17 that decodes a result object '
         'additionally discharges the documented structural rules on it (offsets non-negative, monotone and inside the content; starts <= stops inside the content; size * length inside the content; index / tag inside the '
         'content, negative index only in option nodes; mask and content long enough; record fields at least as long as the record array; no union directly inside a union; for final results such as combinations along axis 0 also: no indexed / option-type node directly on another one) - "operations on valid arrays return valid arrays" '
         'for the methods those harnesses run (see DESIGN.md 9.5 / 9.6); Content::validityerror_parameters on a string / bytestring list whose char / byte content is not a NumpyArray (an error text, no dereference of the failed cast).',
    note='Kernel level only: the C++ validityerror methods (parameter and canonical-form checks) and Python ak.is_valid need '
         'rapidjson/pybind11 and are outside the claim. Trusted: IR encoder, z3, transcription of the documented rules.',
    technique='SMT bounded model checking of kernel and C++ method LLVM IR (llbmc + z3), biconditional oracle; structural rules on decoded results; native replay'),
}

def mc(text, note, ref, tech='SMT bounded model checking of kernel LLVM IR (llbmc + z3) against an independent oracle; native ASan replay'):
    return dict(cat='model_checking', ref=ref, text=text, note=note, technique=tech)

CLAIMED.update({
 'C01': mc('Bounded model checking of the slicing kernels and the range pipeline (carrylength -> allocation -> range) against CPython slice/index '
           'semantics stated independently in z3: per list the selected positions, their order, the carry offsets and the error outcome, for all '
           '64-bit start/stop/at values (regularize_rangeslice: every value, no size bound), lists <= 2/3 of length <= 3/4, |step| <= 2/3. C++ method level: getitem_at / getitem_range (wrap, clamp, hand-over to the content) and '
           'getitem_next(SliceAt / SliceRange / SliceArray64) of ListOffsetArray64, ListArray64 and RegularArray run from their IR on nodes with symbolic buffers '
           '(list lengths case-split, origins / gaps / index values symbolic) over an opaque content; the real result objects are decoded from memory and compared with '
           'Python indexing applied to the nested list of atoms; the same items passing through the five option-type / indexed classes; a second index array arriving with a '
           'symbolic pairing (NumPy advanced indexing) at the three list classes; Content::getitem_next for an ellipsis / newaxis followed by any mix of integer, range, index-array (1-d, 2-d) and newaxis items on a node '
           'of symbolic depth range (the ellipsis is consumed exactly when the items account for every dimension below; refused for branches of different depth); Content::getitem_next(SliceMissing64) '
           '(index array with None: None exactly where the index is negative, the right item of every row elsewhere); carry of seven node classes; NumpyArray::getitem on strided views; an empty index array (x[:, []]: one empty list per row) through the three list classes; an option-type node or a union between two index arrays (the pairing of the earlier array follows the valid entries / the entries of each content); awkward_slicearray_ravel for index arrays of any rank and stride order.',
           'The entry point Content::getitem(Slice) with one item (integer, range of any step sign, index array) on an opaque array of 0..4 entries. '
           'Kernel, kernel-pipeline and single-node method level: toslice() (pybind11), field items inside tuples, jagged slices at the C++ level (kernels only) and slices with several index arrays '
           'beyond two are outside this claim. Trusted: IR encoder, z3, the CPython slice model in hlib.py.', 'DESIGN.md sections 3 (C01) and 9.5', 'SMT bounded model checking of kernel and C++ method LLVM IR (llbmc + z3; node-method harness with an opaque content) against independent oracles; native replay (ASan kernels, whole-library akrun)'),
 'C03': mc('Bounded model checking of every leaf reducer specialization (fold per group with identity, first extremum for arg-reducers, '
           'wrap-around in the output type, float kernels same order/precision) and of the local and non-local branches of '
           'ListOffsetArray64::reduce_next wired kernel-by-kernel with the buffer sizes the C++ allocates, against a per-(group, depth) fold oracle. C++ method level: ListOffsetArray64::reduce_next (reduction below the list level) from its IR: the content receives '
           'exactly the covered elements, parents[k] = list of element k, starts[i] = position of list i in what is handed over; results come back one per list; IndexedOptionArray64::reduce_next at the leaf level; '
           'Content::reduce axis normalisation (any axis, any depth, branching or not); every Reducer*::apply_<dtype> of Reducer.cpp (10 reducers x bool, 8 integer types, float32/64, datetime/timedelta for order reducers) from its IR '
           'together with the dispatched kernel on symbolic data with a concrete group assignment including an empty group: documented output type, fold from the identity, a member that no member beats, first such position, -1 / identity for an empty group; '
           'ListOffsetArray64::reduce_next, non-local branch (reduction across the lists of an outer group), from its IR with all eight kernels it wires: every covered element handed on once, equal group numbers exactly for equal (outer group, position), starts = first handed position of a group, shifts = earlier lists of the group too short for the position, one result per position of the longest list; '
           'NumpyArray::reduce_next (the leaf of every reduction) for all reducers: answer labelled with the documented dtype and item size, positions reported relative to the list (minus starts, plus shifts), mask_identity = None exactly for empty groups, keepdims = a regular dimension of size 1; the same local / non-local harnesses over ListArray, the 32-bit list classes and RegularArray (rows of a regular array inside outer lists, outer lists without rows included).',
           'Outside: record/union nodes, axis=None, complex types, NaN ordering, explicit `initial=`; prod of floats for groups of more than 2. '
           'Bounds: <= 3/4 elements, <= 2/3 groups, non-local lists <= 3 of length <= 2/3 (lengths case-split), products with the group assignment case-split.',
           'DESIGN.md sections 3 (C03) and 9.5', 'SMT bounded model checking of kernel and C++ method LLVM IR (llbmc + z3; node-method harness with an opaque content) against independent oracles; native replay (ASan kernels, whole-library akrun)'),
 'C04': mc('Narrow claim: the three list re-alignment kernels behind broadcasting - equal lengths align element for element, unequal lengths '
           'raise, length-1 regular dimensions repeat - for all target offsets (zero-based, monotone) and list layouts within n <= 3/4, L <= 3/4. C++ method level: broadcast_tooffsets64 of ListOffsetArray64, '
           'ListArray64 and RegularArray from their IR over an opaque content (equal lengths align, a size-1 regular dimension repeats its element, unequal lengths raise); NumpyArray::toRegularArray (how an n-dimensional leaf enters the recursion) for shapes up to 4 dimensions with zero-size dimensions anywhere: nested regular lists of exactly that shape.',
           'broadcast_and_apply / array_ufunc (Python over _ext, cannot be imported) are not addressed; this is the kernel core only.', 'DESIGN.md sections 3 (C04) and 9.5', 'SMT bounded model checking of kernel and C++ method LLVM IR (llbmc + z3; node-method harness with an opaque content) against independent oracles; native replay (ASan kernels, whole-library akrun)'),
 'C05': mc('Bounded model checking of the num / localindex / flatten kernels and the num<->compact_offsets round trip against list-structure laws '
           '(concatenation law for flatten offsets, missing list = empty list). C++ method level (from the IR, opaque content): num and localindex of ListOffsetArray64 / '
           'ListArray64 / RegularArray at the list level and below it, IndexedOptionArray64::offsets_and_flattened at and below the list level; num / localindex of three real node levels - lists of records (1-3 fields) of lists, lists of union-type entries whose contents differ in depth - addressed by a positive and by a negative axis (both name the innermost lists; a negative axis counts from the leaves of each branch), and the level that holds the records addressed as 1 / -2; flatten through a union whose list content holds union-type elements (no union directly in a union) and through a union whose contents differ in depth (axis=-1, both orders of the contents).',
           'Outside: ak.unflatten (NumPy in Python), completely_flatten. Known finding: flatten_offsets reads outside '
           'inneroffsets for a degenerate empty list whose start == stop lies outside the content (accepted by the documented rule).', 'DESIGN.md sections 3 (C05) and 9.5', 'SMT bounded model checking of kernel and C++ method LLVM IR (llbmc + z3; node-method harness with an opaque content) against independent oracles; native replay (ASan kernels, whole-library akrun)'),
 'C07': mc('Bounded model checking of combinations_length -> n carry buffers of totallen -> recursive combinations fill, for n in 1..4, with and '
           'without replacement, against itertools tables; list lengths case-split (<= 4), starts symbolic; counts, order, no neighbour leakage, fill = count. C++ method level: combinations(n, replacement) at the list level of the three list classes (records '
           'of carried contents decoded and compared with itertools on the nested list of atoms) and combinations below the four option-type node classes; Content::combinations_axis0 on the opaque array and on real option-type / indexed / list nodes (the answer is a final result: no indexed node directly on an option-type one).',
           'Outside: ak.cartesian/argcartesian (Python), records/options as element types; RegularArray capacity arithmetic done in C++.', 'DESIGN.md sections 3 (C07) and 9.5', 'SMT bounded model checking of kernel and C++ method LLVM IR (llbmc + z3; node-method harness with an opaque content) against independent oracles; native replay (ASan kernels, whole-library akrun)'),
 'C08': mc('Bounded model checking of the fill/shift/simplify kernels: element j of a part lands at tooffset + j, indexes shifted by exactly the '
           'content base, missing stays missing, numeric fills equal an independently stated C cast, nothing outside the destination range is written. C++ method level: mergemany of IndexedArray / IndexedOptionArray operands of every index width '
           '(entries in order, None stays None, option-ness kept), NumpyArray::mergemany of contiguous int64 arrays of any rank (values and buffer bounds), '
           'UnionArray8_64::simplify_uniontype over a nested union with and without mergeable contents; reverse_merge of every indexed / option index width (an array followed by an indexed one); '
           'RecordArray::mergemany of tuples (first operand trimmed to its length, field-less records keep their count); mergemany of ListOffsetArray64 / ListArray64 / RegularArray operands in any mix (each list keeps its elements, whatever the origins, gaps or unreachable content); NumpyArray::mergemany of two integer arrays of different types (17 type pairs: item size of NumPy\'s promoted type, every value converted exactly according to its source type).',
           'Outside: mergeable dispatch, promotion to floating-point / complex / datetime types (a precision defect of datetime merging was repaired after a reading remark; its unit parsing is outside the encoder), ak.concatenate(axis>0) in Python; float->int casts outside the target range (UB) assumed away.',
           'DESIGN.md sections 3 (C08) and 9.5', 'SMT bounded model checking of kernel and C++ method LLVM IR (llbmc + z3; node-method harness with an opaque content) against independent oracles; native replay (ASan kernels, whole-library akrun)'),
 'C09': mc('Bounded model checking of the rpad pipelines (length kernel sizes the index buffer of the fill kernel) for ListArray, ListOffsetArray, '
           'RegularArray against the pad law, and of ten option-encoding kernels against one shared validity vector (index<0, byte mask either polarity, '
           'bit mask either order and polarity, lengths not a multiple of 8). C++ method level (from the IR, opaque content): rpad and rpad_and_clip of ListOffsetArray64 / ListArray64 / '
           'RegularArray at the list level (result nodes decoded, pad law on the nested list of atoms) and below it; rpad / rpad_and_clip through lists of records of lists by a positive and a negative axis; RecordArray::rpad below the record level (record count kept); bytemask() of the five option encodings.',
           'Outside: ak.fill_none/is_none/mask Python wrappers, fillna merge step, simplify_optiontype.', 'DESIGN.md sections 3 (C09) and 9.5', 'SMT bounded model checking of kernel and C++ method LLVM IR (llbmc + z3; node-method harness with an opaque content) against independent oracles; native replay (ASan kernels, whole-library akrun)'),
})

CLAIMED.update({
 'C02': mc('2-safety by self-composition, decided by the solver: the same structural kernel (getitem_next_at/range/array, num, compact_offsets, '
           'min_range, rpad length, combinations_length) is run on two encodings of the same list structure - ListArray(starts, stops) of width '
           '32/U32/64 with arbitrary origin, gaps and overlap vs the compact zero-based 64-bit form - and must give the same error outcome, counts and '
           'relative carries; five option encodings are checked against one validity vector; normalisation kernels (compact_offsets, toRegularArray, '
           'contiguous positions) meet their list-semantics contract. C++ method level: the conversions that operations apply before delegating keep the nested-list '
           'value - toListOffsetArray64 (with and without re-basing) and toRegularArray of the three list classes, toIndexedOptionArray64 / toByteMaskedArray / project of '
           'the byte-, bit- and un-masked classes and project of IndexedOptionArray64 - and every node-method harness of C01/C05/C09 runs over symbolic offsets origins, gaps, '
           'index values and mask bytes, i.e. over all encodings of one value within the case-split shape.',
           'Python-level operations and conversions to lists/JSON/buffers are outside. Bounds: n <= 2/3 lists of length <= 3, |step| <= 2.', 'DESIGN.md sections 3 (C02) and 9.5',
           'SMT bounded 2-safety (self-composition) over kernel LLVM IR and node-method harnesses over C++ method IR (llbmc + z3); native replay (ASan kernels, whole-library akrun)'),
 'C12': mc('Safety sweep over every kernel with an executable definition (quick: one specialization per kernel; thorough: all): footprint inside the '
           'extent its specification touches, no store to a Const argument, no division trap, unwinding assertions; validity kernels on arbitrary contents; '
           'sizing pairs (carrylength->range, numtrue->nonzero, rpad length->fill, combinations_length->combinations) with the C++ capacity '
           'expressions; zero-length twins.',
           'Kernel level plus NumpyArray::mergemany buffer bounds, NumpyArray::numbers_to_type on n-dimensional arrays (every item converted, nothing read past the new buffer), IndexOf(length) for every 64-bit length (refused or really allocated) and RecordArray::field at the method level; whole-operation purity, lifetime, Python-level behaviour and allocation failure are outside. Known findings: min_range on a '
           'zero-length array, broadcast_tooffsets with non-monotone offsets.', 'DESIGN.md sections 3 (C12) and 9.5', 'SMT bounded model checking of kernel and C++ method LLVM IR (llbmc + z3; node-method harness with an opaque content) against independent oracles; native replay (ASan kernels, whole-library akrun)'),
})

CLAIMED.update({
 'C06': mc('Bounded model checking of awkward_sort / awkward_argsort (with the libstdc++ std::sort / std::stable_sort instantiations from the same IR '
           'module) and awkward_quick_sort: per segment the output is a permutation of the input segment, ordered by the stated comparator with NaN '
           'first, argsort positions are segment-local and realise the order, stable sorts keep equal keys in input order; segment lengths case-split. C++ method level: ListOffsetArray64 sort_next / argsort_next below the list level '
           '(the content receives exactly the covered elements with their parents, the answer is cut back into the same list lengths) and across the lists of an outer group (non-local branch: elements grouped by (outer group, position) '
           'as for reductions, every answer returns to the list and position of the element handed on; shifts for argsort); axis normalisation of Content::sort / argsort; NumpyArray::sort_next / argsort_next (the leaf: groups from parents, dtype switch, stable and unstable kernels) for bool, all integer widths and floats; the starts ListOffsetArray64::argsort_next hands on (positions in the content handed over, also for a sliced list); IndexedOptionArray64::sort_next / argsort_next at the sorted level (valid entries handed on with their groups; per group the answers first, then its Nones / the group-local positions of its missing entries, also when nothing is valid) and strictly above the sorted axis (missing lists inside 1-3 outer lists: every entry stays where it was); the string branch of ListOffsetArray64::argsort_next called with shifts (the string kernel stubbed by an arbitrary in-group answer: a string\'s position counts the missing values before it; without any string still an array of positions).',
           'Bounds: <= 2 segments of <= 3 (ints) / 2 (floats) elements; option harnesses <= 6 entries in <= 3 groups. Outside: the string comparison kernels themselves (std::vector / strncmp bodies), sorting of records. Known finding: the unstable float sort (quick_sort) does not put NaN first.', 'DESIGN.md sections 3 (C06) and 9.5', 'SMT bounded model checking of kernel and C++ method LLVM IR (llbmc + z3; node-method harness with an opaque content) against independent oracles; native replay (ASan kernels, whole-library akrun)'),
 'C10': mc('Narrow claim (RecordArray node only): carry(index), getitem_range_nowrap(start, stop) and field(position) of RecordArray executed from their IR on records '
           'with 0..3 opaque field contents: every field content receives the same positional request, record i of the result holds field by field what the request selects '
           'from each content (so projecting a field by position commutes with positional selection), record count and (absent) field names follow; a field position '
           'outside the record raises. By name (real std::string objects with concrete short names, the real lookup / sort / compare code, catch clauses modelled): field(name) returns the content stored '
           'under that name whatever its position (a numeric name is a position, anything else is refused); getitem_field / getitem_fields give exactly the requested fields, under the requested names, '
           'in the requested order, with the record count kept; projection passes through ListOffsetArray64 / ListArray64 / RegularArray and the four option-type classes unchanged in structure.',
           'zip / unzip / with_field and dict conversion order (Python over _ext), field names longer than 15 characters (heap strings) are outside.', 'DESIGN.md section 9.5',
           'SMT bounded model checking of C++ method LLVM IR (llbmc node-method harness, opaque field contents); native replay through the whole library (akrun)'),
 'C14': mc('Narrow claim (GrowableBuffer only): one inductive step of append / set_length / clear of GrowableBuffer<int64_t>, executed symbolically from '
           'the method IR from an arbitrary state satisfying the representation invariant: writes stay inside the buffer they target, cells [0, old '
           'length) of the old buffer (shared with snapshots) are never written, the prefix is preserved across reallocation, the invariant is re-established. '
           'Builder tree: RecordBuilder::endrecord as one inductive step from any open-record state (fields filled at most once, any key cursor) with opaque field '
           'builders: every field ends with exactly one entry per closed record (missing fields receive null()); ListBuilder::endlist (offsets grow by the content length) and '
           'OptionBuilder::null / integer (index gets -1 / the position the value received) as single steps over the real GrowableBuffer code; Int64Builder::real (the integers so far converted to double in order, then x; '
           'the old buffer untouched), UnknownBuilder::integer after k leading None (option builder with index -1 ... -1 0 over an integer builder holding exactly x) and UnionBuilder::integer / real over real leaf builders '
           '(the value goes to the first member of its type, a real number otherwise replaces the first integer member by its float conversion, otherwise a new member; tag / index record that member and its previous length; the rest untouched); TupleBuilder::index from any state (a position outside the tuple - negative included - or an unopened tuple is refused, the selection stays inside the tuple), '
           'TupleBuilder::endtuple (unfilled fields get one None, a field filled twice is refused), begintuple on a fresh builder (negative field counts refused) and RecordBuilder::field_check with real key strings '
           '(a known key selects its field from any cursor position, a new key appends a field pre-filled with one None per closed record); clear() of record and tuple builders (back to the initial state: no fields, no keys, nothing pending), TupleBuilder::index with a nested tuple open (the position goes to the innermost open tuple), StringBuilder::string (bytes stored unchanged, one offset per string; another encoding opens a union member) and Int64Builder::complex (integers become (re, 0) pairs, nothing read or written past the length); clear() of ListBuilder and of the Bool / Int64 / Float64 / Complex128 / Datetime / String builders (fresh buffers: snapshots taken before never change) and the length a cleared record / tuple builder reports (0).',
           'The other builders (Indexed/Datetime and the remaining leaf builders), from_iter and LayoutBuilder are outside. kernel::malloc stubbed (fresh exact-size buffer), resize in [1.5, 16] '
           '(thorough adds (1, 1.5]).', 'DESIGN.md section 3 (C14)', 'SMT bounded model checking of C++ method LLVM IR (llbmc M-harness, z3 FP); native ASan replay'),
 'C17': mc('Narrow claim (depth and field queries only): purelist_depth, minmax_depth, branch_depth and numfields of ListOffsetArray64, ListArray64, RegularArray, IndexedOptionArray64, '
           'IndexedArray64, ByteMaskedArray and UnmaskedArray executed from their IR over a content whose own answers are arbitrary: a list node is one level deeper than its '
           'content, an option / indexed node exactly as deep, the branching flag and the field count pass through unchanged; RecordArray::keys / haskey / numfields (names in declaration order, positions for a tuple; a key exists exactly when it is a name or a position in range).',
           'Types, forms, Form <-> JSON, type printing / parsing, regularity (computed on forms) and "every element has the promised item type" are outside.', 'DESIGN.md section 9.5',
           'SMT bounded model checking of C++ method LLVM IR (llbmc node-method harness, opaque content); native replay through the whole library (akrun)'),
 'C18': mc('Partitioned arrays only: (a) IrregularlyPartitionedArray::partitionid_index_at from its IR for every non-decreasing stops vector of <= 4 (thorough 6) '
           'partitions, empty ones included, and every 64-bit position; (b) PartitionedArray::getitem_range(start, stop, step) (regularize_rangeslice + '
           'getitem_range_nowrap) and getitem_at from their IR on an IrregularlyPartitionedArray whose partitions are opaque contents: the virtual calls on the '
           'partitions are observation points obeying the CPython-slice contract, every content carries the global positions it stands for, and the pushed result '
           'partitions / stops are compared element by element with range(*slice.indices(total)) of the concatenation, for any int64 start/stop (None included); '
           'partition lengths and step are case-split (quick: <= 3 partitions, lengths 0..4, |step| <= 3; thorough: <= 4 partitions, lengths 0..5, |step| <= 5); (c) lazy arrays: '
           'ArrayGenerator::generate_and_check (declared length / form enforced, a rejected generation leaves no inferred form) and VirtualArray::array() (cache hit returned as is, '
           'miss generates and stores, a failed generation stores nothing) with opaque generator, cache, content and forms; VirtualArray::getitem_range / getitem_range_nowrap on an array with a declared length and nothing cached '
           '(the generator is not run; the answer is a virtual array whose declared length is len(range(*slice(start, stop).indices(L))) and whose SliceGenerator holds exactly the regularised range over this very array; the whole range returns the array itself) '
           'and SliceGenerator::generate (the stored slice, unchanged, applied to that array when data are needed); VirtualArray::getitem_fields on a declared form (lazy projection: the generator is not run, the depths the answer remembers are those of the projected form).',
           'Interleavings of several operations on one cache, eviction policies (Python caches), repartition, toContent and partition.py are not addressed. Stubs: Slice/SliceRange bookkeeping, vector push_back, '
           'shared_ptr control blocks (null), string building.', 'DESIGN.md sections 3 (C18) and 9.5',
           'SMT bounded model checking of C++ method LLVM IR (llbmc M-harness, observation stubs for opaque partitions); native test-double replay'),
 'C19': mc('Interpreter: (a) one instruction of ForthMachineOf<T,int32>::internal_run (T = int32, int64) from an arbitrary well-formed machine state for 34 '
           'stack/arithmetic/comparison/bitwise words against the documented semantics (floored / mod, wrap-around, documented errors); (b) '
           'ForthInputBuffer::read/seek/skip for every 64-bit argument (exact outcome); (c) typed output writes; (d) whole programs: ~45 templates with do/loop/+loop, '
           'nested loops, if/else, begin/until/while/again, user words with exit, halt, variables, typed little/big-endian and repeated reads, seek/skip, compiled by the '
           'repository compiler and run through the real step() / resume() from the IR on symbolic stack cells and input bytes: final stack, variables, input position '
           'and error equal the documented result, and one uninterrupted run, repeated single steps and the same program with pause words resumed until done agree; (e) write_add_int32/int64 (`+<-`) of '
           'integer and floating-point output buffers: previous item (any bit pattern) plus the value, summed exactly in the output type.',
           'Variable-length and bit-packed reads at program level: varint-> (1, 2, 3 and 9 byte encodings, too-big error), zigzag->, and #Nbit-> / #!Nbit-> for N in {1, 3, 8, 12, 31, 32, 33, 57, 58, 63, 64} against a bit-stream oracle (two items, so the second is unaligned). '
           'Tokenizer/compiler/decompiler are exercised only on the concrete templates; float reads to the stack, textual reads, and '
           'recursion-limit faults are outside. Case guards fix trip counts (<= 4) and branch outcomes; other values symbolic. Struct layout from the IR type table.',
           'DESIGN.md sections 3 (C19) and 9.5', 'SMT bounded model checking of C++ method LLVM IR (llbmc M-harness); native replay through the real compiler and interpreter'),
})

NOT_APPLICABLE = {
 'C15': 'io/json.cpp is a rapidjson SAX client; rapidjson headers are absent so the file cannot be compiled or lowered to IR',
 'C16': 'entirely operations/convert.py over _ext, NumPy and pyarrow; _ext cannot be built and symbolic execution stops at every one of those C boundaries',
 'C20': 'Numba lowering needs _ext arrays to type against and only emits IR inside a Numba compile (Numba API mismatch, _ext absent)',
}
PENDING = []

checks = []
# added in the last stretch of the third session (DESIGN.md 9.8)
LAST_STRETCH = {
 'C01': 'RegularArray::getitem_next(SliceJagged64) over a content longer than size * length (the content asked is exactly the reachable items, one (start, stop) pair per item); '
        'ListOffsetArray{32,U32,64}::asslice (an array used as a slice item: zero-based offsets around what the reachable content answers).',
 'C02': 'Also: RegularArray::getitem_next(SliceJagged64) over a longer content, ListOffsetArray::asslice with any offsets origin, IndexedArray*::mergemany with every index class first and second, '
        'bytemask() a canonical 0/1 byte in every option encoding. IndexedArray::is_unique with an index window; simplify_uniontype of a union over the same buffer region twice; BitMaskedArray conversions with a padded mask.',
 'C03': 'IndexedArray64::reduce_next (no missing values) with shifts coming in from an enclosing list: they are handed on unchanged (argmax / argmin across ragged lists).',
 'C06': 'IndexedOptionArray64 / IndexedArray64::argsort_next called the way the enclosing list calls them for a sort across lists (groups = columns, incoming shifts from concrete ragged row shapes): '
        'a missing value gets its row as position, the shifts reach the content; kernel awkward_ListOffsetArray_argsort_strings with the inlined std::sort / std::stable_sort on groups of <= 3 strings of <= 3 symbolic bytes: '
        'permutation, byte-wise lexicographic order in the requested direction (every byte value, NUL included), equal strings keep their order when stable.',
 'C09': 'bytemask(): every byte 0 or 1 in every encoding.',
 'C10': 'RecordArray::field / fieldindex / haskey by key with util::fieldindex: a key is the field of that name, else the position it spells exactly ("0", "1", ...), else std::invalid_argument (haskey: false, never raises) - '
        'keys with a numeric prefix, sign, blank, leading zero, beyond int, empty, and fields named by digits.',
 'C11': 'ListOffsetArray64::validityerror with the offsets a window into a longer buffer: the rule kernel (decided on its own above) is handed the window\'s starts and stops, the list count and the content length; '
        'otherwise the content\'s answer is returned. getitem_next_missing_jagged (a jagged slice with None lists, the content answering opaque or with a real IndexedOptionArray64): spans per entry, None where either has None, no option node directly inside another. validityerror of ListArray64 / IndexedArray64 / IndexedOptionArray64 / UnionArray8_64 with index buffers that are windows into longer buffers (the windows, the entry count, the content length and the option flag reach the rule kernel); is_unique of the indexed classes asks exactly about the non-missing entries the window selects.',
 'C17': 'RecordArray::key(position) for every 64-bit position (name inside, std::invalid_argument outside - also below zero); form(materialize) of every list / indexed / option node class (15 classes and variants): a Form of the node\'s own kind, '
        'index tags naming the real width, size / valid_when / lsb_order the node\'s, no identities, content form = the content\'s answer (read back from memory; replay through Form::tojson); NumpyArray::form (inner shape, item size, format, dtype) and RecordArray::form (shared names, one content form per field in order); '
        'type() of the 15 list / indexed / option node classes without parameters: var * T, size * T, ?T, T with T the type the content form reports (replay through Type::tostring). RecordArray depth queries over fields of arbitrary depths ((1, 1) / (false, 1) without fields); NumpyArray::type (d1 * d2 * ... * dtype outermost first); UnionArray8_{32,U32,64}::form.',
 'C19': 'Every paused program template additionally with a word call()ed between each pause and its resume (same final state as the uninterrupted run); ForthOutputBuffer::rewind for every 64-bit count.',
 'C08': 'simplify_uniontype of a union whose two contents are the same buffer region (referentially equal): the index entries of the second are not shifted.',
 'C12': 'BitMaskedArray::project / toIndexedOptionArray64 / toByteMaskedArray (and the ByteMaskedArray conversions) with a mask one or two bytes longer than the entries need: every kernel write inside the buffers sized from it.',
 'C14': 'ListBuilder::clear from an open list and UnionBuilder::clear with a member active (no list open / no member active afterwards); Indexed{I32,IU32,I64}Builder::append(own array, at) = the content position entry `at` shows, snapshot = indexed / option-type array over that content, clear forgets the null flag; the native witness of the leaf clear harnesses refills with other lengths.',
}
for k_, v_ in LAST_STRETCH.items():
    CLAIMED[k_]['text'] = CLAIMED[k_]['text'].rstrip() + ' Last stretch (DESIGN.md 9.8): ' + v_

for pid, c in sorted(CLAIMED.items()):
    checks.append(dict(property_id=pid, quick_cmd='./vcheck %s --tier quick' % pid, thorough_cmd='./vcheck %s --tier thorough' % pid,
                       evidence_file='evidence/%s.json' % pid, replay_cmd_template='./vcheck %s --replay {path}' % pid,
                       engine='llbmc', level_claimed=dict(category=c['cat'], text=c['text'], design_ref=c['ref']),
                       level_note=c['note'], technique=c['technique']))
na = [dict(property_id=k, reason=v) for k, v in sorted(NOT_APPLICABLE.items())]
for p in PENDING:
    if p not in CLAIMED:
        na.append(dict(property_id=p, reason='check under construction in this session (see DESIGN.md section 3); not claimed until it lands'))
M = dict(version=1, setup_cmd='./setup.sh',
         hooks=dict(guard='SCIKIT_HEP_AWKWARD_1_0_VERIF', enable='no source hooks: checks compile /repo sources themselves (clang++-14 to LLVM IR and to native code)',
                    baseline_off_cmd='cd /repo && /venv/bin/python -m pytest -ra -q -p no:cacheprovider --timeout=900 --continue-on-collection-errors',
                    source_commits=[], add_only=True),
         engines=[dict(name='llbmc', path='vf/llbmc.py', serves_properties=sorted(CLAIMED), kind_free_text='bounded model checker for LLVM-14 IR over z3 (merged-state symbolic execution), regenerated from /repo sources on every run'),
                  dict(name='specpy', path='vf/specpy.py', serves_properties=['C13'], kind_free_text='predicated symbolic interpreter for the Python definitions in kernel-specification.yml')],
         checks=checks, not_applicable=sorted(na, key=lambda x: x['property_id']),
         notes='All checks are solver-based (z3 over encodings regenerated from /repo on every run); sat answers are replayed on natively compiled repo code before being reported.')
json.dump(M, open('MANIFEST.json', 'w'), indent=1)
print('claimed', sorted(CLAIMED), 'n/a', [x['property_id'] for x in na])
