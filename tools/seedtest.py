#!/usr/bin/env python3
"""seedtest.py <seed dir> <A|B> <property ids...>: verify a seeded change (demo passes clean / fails patched in a scratch
worktree), then apply it to /repo, run the given quick checks, and undo it.  Prints a JSON summary."""
import sys, subprocess, json, os, time, shutil
scratch = "--scratch" in sys.argv
argv = [a for a in sys.argv if a != "--scratch"]
seed, X = argv[1], argv[2]
props = argv[3:]
patch = os.path.join(seed, X + '.patch')
run = os.path.join(seed, X + '_run.sh')
wt = '/tmp/wt_seedtest_%d' % os.getpid()
sh = lambda c, **k: subprocess.run(c, shell=True, capture_output=True, text=True, **k)
res = dict(seed=seed, change=X, checks={})
sh('git -C /repo worktree add -q --detach %s HEAD' % wt)
sh('cp /repo/include/awkward/kernels.h %s/include/awkward/kernels.h' % wt)
try:
    r0 = sh('bash %s %s' % (run, wt), timeout=900)
    res['demo_clean_exit'] = r0.returncode
    a = sh('git -C %s apply %s' % (wt, patch))
    res['applies'] = a.returncode == 0
    r1 = sh('bash %s %s' % (run, wt), timeout=900)
    res['demo_patched_exit'] = r1.returncode
    res['demo_patched_tail'] = (r1.stdout + r1.stderr)[-300:]
    if scratch and res.get('demo_clean_exit') == 0 and res.get('applies') and res.get('demo_patched_exit') not in (0, None):
        # run the checks against the patched scratch worktree (VERIF_REPO) instead of patching /repo itself
        for p in props:
            t0 = time.time()
            r = sh('cd /verif && VERIF_REPO=%s ./vcheck %s --tier quick' % (wt, p), timeout=3600)
            viol = [l for l in r.stdout.splitlines() if l.startswith('VIOLATION')]
            res['checks'][p] = dict(exit=r.returncode, violations=len(viol), first=(viol[0] if viol else ''), wall=round(time.time() - t0),
                                   detail=[l.strip()[:260] for l in r.stdout.splitlines() if l.startswith('  ')][:3],
                                   notes=[l[:200] for l in r.stdout.splitlines() if l.startswith('HARNESS-NOTE')][:3], mode='scratch worktree via VERIF_REPO')
finally:
    sh('git -C /repo worktree remove --force %s' % wt)
res['confirmed'] = res.get('demo_clean_exit') == 0 and res.get('applies') and res.get('demo_patched_exit') not in (0, None)
if res['confirmed'] and props and not scratch:
    st = sh('git -C /repo status --porcelain --untracked-files=no').stdout.strip()
    assert not st, 'repo not clean: ' + st
    a = sh('git -C /repo apply %s' % patch)
    assert a.returncode == 0, a.stderr
    try:
        for p in props:
            t0 = time.time()
            r = sh('cd /verif && ./vcheck %s --tier quick' % p, timeout=3600)
            viol = [l for l in r.stdout.splitlines() if l.startswith('VIOLATION')]
            res['checks'][p] = dict(exit=r.returncode, violations=len(viol), first=(viol[0] if viol else ''), wall=round(time.time() - t0),
                                   detail=[l.strip()[:260] for l in r.stdout.splitlines() if l.startswith('  ')][:3],
                                   notes=[l[:200] for l in r.stdout.splitlines() if l.startswith('HARNESS-NOTE')][:3])
    finally:
        sh('git -C /repo checkout -- .')
print(json.dumps(res, indent=1))
