#!/usr/bin/env python3
"""discovery aid (not a registered check, decides nothing): random nested structures built through the whole-library replay driver (akrun),
structure operations compared with plain-Python references.  Every disagreement is a *candidate*; it becomes a claim only through a solver
harness in vf/ (and a fix: / known finding if it is the library that is wrong).  usage: tools/probe.py <seed> <count> [ops]"""
import sys, random, itertools
sys.path.insert(0, '/verif')
from vf import fullnative
R = fullnative.akrun
ints = fullnative.ints


LEAFTYPES = [False]


def gen_leaf(n):
    vals = [random.randint(0, 9) for _ in range(n)]
    if LEAFTYPES[0]:
        kind = random.choice(['i64', 'i32', 'u8', 'f64', 'f32', 'bool'])
        if kind == 'bool':
            vals = [v % 2 for v in vals]
            return 'bool %s ' % ints(vals), [bool(v) for v in vals]
        if kind in ('f64', 'f32'):
            vals = [v + 0.5 * (v % 2) for v in vals]
            return '%s %d %s ' % (kind, len(vals), ' '.join(repr(v) for v in vals)), vals
        return '%s %s ' % (kind, ints(vals)), vals
    return 'i64 %s ' % ints(vals), vals


def wrap_option(prog, vals):
    kind = random.choice(['option64', 'option32', 'bytemask', 'unmasked', 'indexed64', 'none', 'none'])
    n = len(vals)
    if kind == 'none':
        return prog, vals
    if kind == 'unmasked':
        return prog + 'unmasked ', vals
    if kind == 'indexed64':
        m = random.randint(0, n + 1) if n else 0
        idx = [random.randrange(n) for _ in range(m)] if n else []
        return prog + 'indexed64 %s ' % ints(idx), [vals[i] for i in idx]
    if kind in ('option64', 'option32'):
        m = random.randint(0, n + 2)
        idx = [(-1 if (random.random() < 0.3 or n == 0) else random.randrange(n)) for _ in range(m)]
        return prog + '%s %s ' % (kind, ints(idx)), [None if i < 0 else vals[i] for i in idx]
    mask = [random.random() < 0.3 for _ in range(n)]
    vw = random.choice([0, 1])
    return prog + 'bytemask %d %s ' % (vw, ints([int(m_ != bool(vw)) ^ 1 if False else (0 if (m_ == bool(vw)) else 1) for m_ in mask])) if False else _bytemask(prog, vals, mask, vw)


def _bytemask(prog, vals, mask, vw):
    # mask[i] True = missing; byte == valid_when means valid
    bytes_ = [(vw if not m_ else 1 - vw) for m_ in mask]
    return prog + 'bytemask %d %s ' % (vw, ints(bytes_)), [None if m_ else v for v, m_ in zip(vals, mask)]


def wrap_list(prog, vals):
    n = len(vals)
    kind = random.choice(['listoffset64', 'listoffset64', 'listoffset32', 'list64', 'regular'])
    if kind == 'regular':
        size = random.randint(0, 3)
        if size == 0:
            ln = random.randint(0, 3)
            return prog + 'regular 0 %d ' % ln, [[] for _ in range(ln)]
        ln = n // size
        return prog + 'regular %d 0 ' % size, [vals[i * size:(i + 1) * size] for i in range(ln)]
    if kind.startswith('listoffset'):
        k = random.randint(0, 4)
        cuts = sorted(random.randint(0, n) for _ in range(k + 1))
        return prog + '%s %s ' % (kind, ints(cuts)), [vals[cuts[i]:cuts[i + 1]] for i in range(k)]
    k = random.randint(0, 4)
    starts, stops = [], []
    for _ in range(k):
        a = random.randint(0, n); b = random.randint(a, min(n, a + 3))
        starts.append(a); stops.append(b)
    return prog + 'list64 %d %s %s ' % (k, ' '.join(map(str, starts)), ' '.join(map(str, stops))), [vals[a:b] for a, b in zip(starts, stops)]


RECORDS = [False]
UNIONS = [False]


def gen_level(d, rec_at):
    """-> (program, value) of a structure with d list levels counted from the leaves (d = 1: a flat array)"""
    if UNIONS[0] and random.random() < 0.2:
        (pa, va), (pb, vb) = gen_level_plain(d, rec_at), gen_level_plain(d, rec_at)
        tags, index, vals, ca, cb = [], [], [], 0, 0
        while ca < len(va) or cb < len(vb):
            if cb >= len(vb) or (ca < len(va) and random.random() < 0.5):
                tags.append(0); index.append(ca); vals.append(va[ca]); ca += 1
            else:
                tags.append(1); index.append(cb); vals.append(vb[cb]); cb += 1
        if random.random() < 0.5 and vals:         # a union may show only some entries, in any order
            keep = [random.randrange(len(vals)) for _ in range(random.randint(0, len(vals)))]
            tags, index, vals = [tags[i] for i in keep], [index[i] for i in keep], [vals[i] for i in keep]
        return pa + pb + 'union8_64 %d %s %s 2 ' % (len(tags), ' '.join(map(str, tags)), ' '.join(map(str, index))), vals
    return gen_level_plain(d, rec_at)


def gen_level_plain(d, rec_at):
    if d == 1:
        prog, vals = gen_leaf(random.randint(0, 8))
        prog, vals = wrap_option(prog, vals)
    else:
        prog, vals = gen_level(d - 1, rec_at)
        if d - 2 == rec_at:
            prog, vals = prog + 'dup record 2 %d x y ' % len(vals), [{'x': v, 'y': v} for v in vals]
        prog, vals = wrap_list(prog, vals)
        prog, vals = wrap_option(prog, vals)
    return prog, vals


def gen(depth):
    rec_at = random.randrange(depth) if RECORDS[0] else -1
    prog, vals = gen_level(depth, rec_at)
    if rec_at == depth - 1:
        prog, vals = prog + 'dup record 2 %d x y ' % len(vals), [{'x': v, 'y': v} for v in vals]
    return prog, vals


# ---- references on Python values (None = missing); axis counted from the outside, 0 = the array itself
def at_axis(v, axis, fn, below_none=None):
    # v: a list (an array or one of its lists); records (dicts) are not a level of their own
    if axis == 0:
        return fn(v)
    out = []
    for x in v:
        if x is None:
            out.append(None)
        elif isinstance(x, dict):
            out.append({k: at_axis([x[k]], axis, fn)[0] for k in x})
        else:
            out.append(at_axis(x, axis - 1, fn))
    return out


def ref_num(v, axis):
    return at_axis(v, axis, lambda l: [None if x is None else len(x) for x in l]) if axis >= 1 else len(v)


def ref_localindex(v, axis):
    return at_axis(v, axis, lambda l: list(range(len(l))))


def ref_rpad(v, axis, t, clip):
    def f(l):
        out = list(l) + [None] * max(0, t - len(l))
        return out[:t] if clip else out
    return at_axis(v, axis, f)


def ref_flatten(v, axis):
    def f(l):
        out = []
        for x in l:
            if x is not None:
                out += x
        return out
    return at_axis(v, axis - 1, f)


def ref_sort(v, axis, asc, arg):
    def f(l):
        pres = [j for j in range(len(l)) if l[j] is not None]
        pres.sort(key=lambda j: (l[j] if asc else -l[j], j))
        nulls = [j for j in range(len(l)) if l[j] is None]
        return pres + nulls if arg else [l[j] for j in pres] + [None] * len(nulls)
    return at_axis(v, axis, f)


def sort_cols(items, d, asc, arg):
    # items: the entries along the sorted axis, each of depth d - 1 (d == 1: scalars or None); missing values last, missing lists stay in place
    if d == 1:
        pres = [j for j in range(len(items)) if items[j] is not None]
        pres.sort(key=lambda j: (items[j] if asc else -items[j], j))
        nulls = [j for j in range(len(items)) if items[j] is None]
        return pres + nulls if arg else [items[j] for j in pres] + [None] * len(nulls)
    out = [None if x is None else list(x) for x in items]
    rows = [i for i, x in enumerate(items) if x is not None]
    m = max([len(items[i]) for i in rows] + [0])
    for j in range(m):
        who = [i for i in rows if len(items[i]) > j]
        col = sort_cols([items[i][j] for i in who], d - 1, asc, arg)
        if arg:
            # positions count along the sorted axis: the row an element came from, not its rank among the rows long enough to have position j
            remap = lambda x: None if x is None else ([remap(y) for y in x] if isinstance(x, list) else who[x])
            col = [remap(x) for x in col]
        for t, i in enumerate(who):
            out[i][j] = col[t]
    # a missing list is a missing value along the sorted axis: last
    return [out[i] for i in rows] + [None] * (len(items) - len(rows))


def ref_sort_any(v, axis, depth, asc, arg):
    return at_axis(v, axis, lambda l: sort_cols(l, depth - axis, asc, arg))


def ref_comb(v, axis, n, rep):
    def f(l):
        it = itertools.combinations_with_replacement(l, n) if rep else itertools.combinations(l, n)
        return [{str(i): x for i, x in enumerate(t)} for t in it]
    return at_axis(v, axis, f)


def ref_reduce(v, axis, name, mask, depth):
    ident = {'sum': 0, 'max': -2 ** 63, 'min': 2 ** 63 - 1, 'count': 0, 'prod': 1}[name]

    def leafop(xs):
        xs = [x for x in xs if x is not None]
        if name == 'count':
            return len(xs)
        if not xs:
            return None if mask else ident
        if name == 'sum':
            return sum(xs)
        if name == 'prod':
            out = 1
            for x in xs:
                out *= x
            return out
        return max(xs) if name == 'max' else min(xs)

    def red0(items, d):
        # items: the entries along the reduced axis, each of depth d - 1 (d == 1: scalars)
        if d == 1:
            return leafop(items)
        items = [x for x in items if x is not None]
        m = max([len(x) for x in items] + [0])
        return [red0([x[j] for x in items if len(x) > j], d - 1) for j in range(m)]
    if axis == 0:
        return red0(v, depth)
    return [None if x is None else ref_reduce(x, axis - 1, name, mask, depth - 1) for x in v]


class Refused(Exception):
    pass


def ref_getitem(v, items):
    # items: ('at', i) / ('range', a, b, c) / ('array', [..]) applied dimension by dimension; None entries stay None
    if not items:
        return v
    if v is None:
        return None
    head, rest = items[0], items[1:]
    if isinstance(v, dict):
        return {k: ref_getitem(v[k], items) for k in v}
    if not isinstance(v, list):
        raise Refused('too many items')
    if head[0] == 'at':
        i = head[1] + (len(v) if head[1] < 0 else 0)
        if not 0 <= i < len(v):
            raise Refused('index out of range')
        return ref_getitem(v[i], rest)
    if head[0] == 'range':
        a, b, c = head[1:]
        return [ref_getitem(x, rest) for x in v[slice(a, b, c)]]
    out = []
    for i in head[1]:
        if i is None:
            out.append(None); continue
        j = i + (len(v) if i < 0 else 0)
        if not 0 <= j < len(v):
            raise Refused('index out of range')
        out.append(ref_getitem(v[j], rest))
    return out


def ref_getitem_top(v, items):
    # the first item applies to the array itself; every later item to each entry that the earlier ones keep: an 'at' removes a dimension, so the
    # rest applies to the selected element; a range / array keeps the dimension, the rest applies to each element
    return ref_getitem(v, items)


def gen_items(depth):
    items, cmd = [], []
    narr = 0
    for d in range(random.randint(1, depth)):
        k = random.choice(['at', 'range', 'range', 'array', 'missing'])
        if k in ('array', 'missing') and narr:
            k = 'range'
        if k == 'missing':
            narr += 1
            idx = [random.choice([None, None, -2, -1, 0, 1, 2]) for _ in range(random.randint(1, 3))]
            if all(i is not None for i in idx):
                idx[0] = None
            # a SliceMissing64 item: index into the non-missing entries + the array of those entries
            dense = [i for i in idx if i is not None]
            pos, t = [], 0
            for i in idx:
                if i is None:
                    pos.append(-1)
                else:
                    pos.append(t); t += 1
            items.append(('array', idx)); cmd.append('missing %s array %s' % (ints(pos), ints(dense)))
            continue
        if k == 'at':
            i = random.randint(-3, 3); items.append(('at', i)); cmd.append('at %d' % i)
        elif k == 'range':
            a, b = random.choice([None, -2, -1, 0, 1, 2]), random.choice([None, -2, -1, 0, 1, 2, 3])
            c = random.choice([1, 1, 2, -1])
            items.append(('range', a, b, c)); cmd.append('range %s %s %d' % ('NONE' if a is None else a, 'NONE' if b is None else b, c))
        else:
            narr += 1
            idx = [random.randint(-2, 2) for _ in range(random.randint(0, 3))]
            items.append(('array', idx)); cmd.append('array %s' % ints(idx))
    return items, 'getitem %d %s' % (len(items), ' '.join(cmd))


def main():
    seed, count = int(sys.argv[1]), int(sys.argv[2])
    ops = sys.argv[3].split(',') if len(sys.argv) > 3 else ['num', 'localindex', 'rpad', 'rpadclip', 'flatten', 'sort', 'argsort', 'comb']
    random.seed(seed)
    if 'records' in sys.argv:
        RECORDS[0] = True
    if 'unions' in sys.argv:
        UNIONS[0] = True
    if 'leaftypes' in sys.argv:
        LEAFTYPES[0] = True
    bad = 0
    for t in range(count):
        depth = random.randint(1, 3)
        prog, v = gen(depth)
        if R(prog + 'validity') != ('OK', ''):
            continue
        if 'merge' in ops:
            # concatenation along axis 0: two or three arrays of the same depth
            parts = [(prog, v)] + [gen(depth) for _ in range(random.randint(1, 2))]
            if all(R(p_ + 'validity') == ('OK', '') for p_, _ in parts):
                exp = [x for _, v_ in parts for x in v_]
                cmd = ''.join(p_ for p_, _ in parts) + ('merge' if len(parts) == 2 else 'mergemany 2')
                got = R(cmd); main.n = getattr(main, 'n', 0) + 1
                gotv = R(cmd + ' validity')
                if got[0] != 'OK' or got[1] != exp or gotv != ('OK', ''):
                    bad += 1
                    if bad <= 15:
                        print('MISMATCH merge\n   values %s\n   got %s %s\n   exp %s\n   prog %s' % ([v_ for _, v_ in parts], str(got)[:300], gotv, str(exp)[:300], cmd))
        if 'fillna' in ops:
            fv = random.randint(100, 109)
            def fill(x, d):
                if d == 0:
                    return fv if x is None else x
                return None if False else ([fill(y, d - 1) for y in x] if x is not None else (fv if False else None))
            # fillna replaces None at every level by the value (Content::fillna recurses through lists)
            def fill_all(x):
                if x is None:
                    return fv
                if isinstance(x, list):
                    return [fill_all(y) for y in x]
                return x
            cmd = prog + 'i64 1 %d fillna' % fv
            got = R(cmd); main.n = getattr(main, 'n', 0) + 1
            exp = fill_all(v)
            if got[0] != 'OK' or got[1] != exp:
                bad += 1
                if bad <= 15:
                    print('MISMATCH fillna\n   value %s\n   got %s\n   exp %s\n   prog %s' % (v, str(got)[:300], str(exp)[:300], cmd))
        if 'getitem' in ops:
            for _ in range(6):
                items, cmd = gen_items(depth)
                try:
                    exp = ('OK', ref_getitem_top(v, items))
                except Refused as e:
                    exp = ('ERR', str(e))
                got = R(prog + cmd); main.n = getattr(main, 'n', 0) + 1
                if (got[0] == 'OK') != (exp[0] == 'OK') or (got[0] == 'OK' and got[1] != exp[1]):
                    bad += 1
                    if bad <= 15:
                        print('MISMATCH %s\n   value %s\n   got %s\n   exp %s\n   prog %s' % (cmd, v, str(got)[:300], str(exp)[:300], prog + cmd))
        for op in [o for o in ops if o not in ('getitem', 'merge', 'fillna')]:
            for axis in range(0, depth):
                for neg in (False, True):
                    ax = axis - depth if neg else axis
                    try:
                        if op == 'num':
                            if axis == 0 or axis > depth - 1: continue
                            cmd, exp = 'num %d' % ax, ref_num(v, axis - 1) if axis >= 1 else None
                            exp = at_axis(v, axis, len)
                        elif op == 'localindex':
                            cmd, exp = 'localindex %d' % ax, ref_localindex(v, axis)
                        elif op in ('rpad', 'rpadclip'):
                            tg = random.randint(0, 3)
                            cmd, exp = '%s %d %d' % (op, tg, ax), ref_rpad(v, axis, tg, op == 'rpadclip')
                        elif op == 'flatten':
                            if axis == 0: continue
                            cmd, exp = 'flatten %d' % ax, ref_flatten(v, axis)
                        elif op in ('sort', 'argsort'):
                            if axis != depth - 1: continue
                            asc = random.random() < 0.5
                            cmd, exp = '%s %d %d 1' % (op, ax, int(asc)), ref_sort(v, axis, asc, op == 'argsort')
                        elif op in ('sortany', 'argsortany'):
                            asc = random.random() < 0.5
                            cmd, exp = '%s %d %d 1' % (op[:-3], ax, int(asc)), ref_sort_any(v, axis, depth, asc, op.startswith('arg'))
                        elif op == 'reduce':
                            nm = random.choice(['sum', 'max', 'min', 'count', 'prod'])
                            mk = random.random() < 0.5 and nm != 'count'
                            cmd, exp = 'reduce %s %d %d 0' % (nm, ax, int(mk)), ref_reduce(v, axis, nm, mk, depth)
                        elif op == 'comb':
                            rep = random.random() < 0.5
                            cmd, exp = 'combinations 2 %d %d' % (int(rep), ax), ref_comb(v, axis, 2, rep)
                    except TypeError:
                        continue
                    got = R(prog + cmd); main.n = getattr(main, "n", 0) + 1
                    if got[0] == 'ERR' and 'exceeds the min depth' in str(got[1]) and RECORDS[0] and neg:
                        continue        # the library refuses a negative axis that reaches the level of a record or above (its rule, an error, not a wrong answer)
                    if got[0] != 'OK' or got[1] != exp:
                        bad += 1
                        if bad <= int(sys.argv[4]) if len(sys.argv) > 4 else bad <= 15:
                            print('MISMATCH %s\n   value %s\n   got %s\n   exp %s\n   prog %s' % (cmd, v, str(got)[:300], str(exp)[:300], prog + cmd))
    print('mismatches', bad, 'of', getattr(main, 'n', 0), 'comparisons')


main()
