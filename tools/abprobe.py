#!/usr/bin/env python3
"""discovery aid (not a registered check): random well-nested ArrayBuilder programs run through the real builder tree (native driver built from
/repo by vf/fullnative), the snapshot compared with the appended Python values under the documented unification (records reached at the same
position share one type, absent fields None), snapshots taken on the way re-rendered at the end (immutability).  usage: tools/abprobe.py <seed> <count>"""
import sys, random, json, subprocess, os, tempfile
sys.path.insert(0, '/verif')
from vf import fullnative

DRIVER = r'''
#include <cstdio>
#include <cstdlib>
#include <string>
#include <vector>
#include <fstream>
#include <stdexcept>
#include "awkward/builder/ArrayBuilder.h"
#include "awkward/builder/ArrayBuilderOptions.h"
#include "awkward/Content.h"
using namespace awkward;
int main(int argc, char** argv) {
  std::ifstream in(argv[1]);
  int64_t initial = atoll(argv[2]);
  ArrayBuilder b(ArrayBuilderOptions(initial, 1.5));
  std::vector<std::pair<ContentPtr, std::string>> snaps;
  std::string t;
  try {
    while (in >> t) {
      if (t == "null") b.null();
      else if (t == "bool") { int v; in >> v; b.boolean(v != 0); }
      else if (t == "int") { long long v; in >> v; b.integer(v); }
      else if (t == "real") { double v; in >> v; b.real(v); }
      else if (t == "str") { std::string s; in >> s; b.string(s); }
      else if (t == "bytes") { std::string s; in >> s; b.bytestring(s); }
      else if (t == "[") b.beginlist();
      else if (t == "]") b.endlist();
      else if (t == "{") b.beginrecord();
      else if (t == "{named") { std::string s; in >> s; b.beginrecord_check(s); }
      else if (t == "field") { std::string s; in >> s; b.field_check(s); }
      else if (t == "}") b.endrecord();
      else if (t == "(") { long long n; in >> n; b.begintuple(n); }
      else if (t == "index") { long long n; in >> n; b.index(n); }
      else if (t == ")") b.endtuple();
      else if (t == "snap") { ContentPtr s = b.snapshot(); snaps.push_back(std::make_pair(s, s.get()->tojson(false, 10))); }
      else if (t == "clear") b.clear();
      else { printf("ERR unknown token %s\n", t.c_str()); return 2; }
    }
    ContentPtr fin = b.snapshot();
    std::string v = fin.get()->validityerror("snapshot");
    int changed = 0;
    for (auto& p : snaps) if (p.first.get()->tojson(false, 10) != p.second) changed++;
    printf("OK %d %s|%s\n", changed, v.c_str(), fin.get()->tojson(false, 10).c_str());
  } catch (std::exception& e) { printf("ERR %.150s\n", e.what()); }
  fflush(stdout); _Exit(0);
}
'''


def gen_value(depth):
    r = random.random()
    if depth <= 0 or r < 0.35:
        k = random.choice(['int', 'int', 'real', 'null', 'bool', 'str'])
        return {'int': lambda: random.randint(-3, 9), 'real': lambda: random.choice([0.5, 1.5, -2.25]), 'null': lambda: None, 'bool': lambda: random.random() < 0.5,
                'str': lambda: random.choice(['a', 'bc', 'xyz'])}[k]()
    if r < 0.65:
        return [gen_value(depth - 1) for _ in range(random.randint(0, 3))]
    if r < 0.88:
        keys = random.sample(['x', 'y', 'z'], random.randint(1, 3))
        return {k: gen_value(depth - 1) for k in keys}
    return tuple(gen_value(depth - 1) for _ in range(random.randint(1, 3)))


def emit(v, out):
    if v is None:
        out.append('null')
    elif isinstance(v, bool):
        out.append('bool %d' % v)
    elif isinstance(v, int):
        out.append('int %d' % v)
    elif isinstance(v, float):
        out.append('real %r' % v)
    elif isinstance(v, str):
        out.append('str %s' % v)
    elif isinstance(v, list):
        out.append('[')
        for x in v:
            emit(x, out)
            if random.random() < 0.05:
                out.append('snap')
        out.append(']')
    elif isinstance(v, dict):
        out.append('{')
        for k, x in v.items():
            out.append('field %s' % k)
            emit(x, out)
        out.append('}')
    else:
        out.append('( %d' % len(v))
        for i, x in enumerate(v):
            out.append('index %d' % i)
            emit(x, out)
        out.append(')')


def new_node():
    return dict(rec={}, lst=None, tup={})


def collect(values, node):
    for v in values:
        if isinstance(v, dict):
            for k in v:
                node['rec'].setdefault(k, new_node())
            for k in v:
                collect([v[k]], node['rec'][k])
        elif isinstance(v, list):
            if node['lst'] is None:
                node['lst'] = new_node()
            collect(v, node['lst'])
        elif isinstance(v, tuple):
            slots = node['tup'].setdefault(len(v), [new_node() for _ in v])
            for i, x in enumerate(v):
                collect([x], slots[i])


def fill(v, node):
    if isinstance(v, dict):
        return {k: (fill(v[k], node['rec'][k]) if k in v else None) for k in node['rec']}
    if isinstance(v, list):
        return [fill(x, node['lst']) for x in v]
    if isinstance(v, tuple):
        slots = node['tup'][len(v)]
        return {str(i): fill(x, slots[i]) for i, x in enumerate(v)}
    return v


def same(a, b):
    if isinstance(a, dict) and isinstance(b, dict):
        return set(a) == set(b) and all(same(a[k], b[k]) for k in a)
    if isinstance(a, list) and isinstance(b, list):
        return len(a) == len(b) and all(same(x, y) for x, y in zip(a, b))
    if isinstance(a, bool) or isinstance(b, bool):
        return a is b or (isinstance(a, (int, float)) and isinstance(b, (int, float)) and not isinstance(a, bool) and float(a) == float(b)) or a == b
    if isinstance(a, (int, float)) and isinstance(b, (int, float)):
        return float(a) == float(b)
    return a == b


def chaos(exe, count):
    # arbitrary (mostly ill-nested) call sequences: an error is fine, a crash / sanitizer report / changed snapshot is not
    alphabet = ['null', 'bool 1', 'int 3', 'real 1.5', 'str ab', 'bytes xy', '[', ']', '{', '{named rec', 'field x', 'field y', '}', '( 2', '( 0', '( -1', 'index 0', 'index 1', 'index 2', 'index -1', ')', 'snap', 'clear']
    bad = 0
    for t in range(count):
        toks = [random.choice(alphabet) for _ in range(random.randint(1, 14))]
        with tempfile.NamedTemporaryFile('w', suffix='.ab', delete=False) as f:
            f.write(' '.join(toks))
        r = subprocess.run([exe, f.name, str(random.choice([1, 2, 8]))], capture_output=True, text=True, timeout=30,
                           env=dict(os.environ, ASAN_OPTIONS='detect_leaks=0', UBSAN_OPTIONS='halt_on_error=1:exitcode=87'), errors='replace')
        os.unlink(f.name)
        line = r.stdout.strip().replace('\n', ' ') if r.stdout.strip() else 'CRASH %d %s' % (r.returncode, r.stderr[-400:])
        ok = line.startswith('ERR ') or (line.startswith('OK 0 |'))
        if line.startswith('OK 0 ') and not line.startswith('OK 0 |'):
            ok = False          # the snapshot is not a valid array
        if not ok:
            bad += 1
            if bad <= 10:
                print('CHAOS %s\n   -> %s' % (' '.join(toks), line[:500]))
    print('chaos mismatches', bad, 'of', count)


def main():
    seed, count = int(sys.argv[1]), int(sys.argv[2])
    random.seed(seed)
    exe = fullnative.link_driver(DRIVER, 'abprobe')
    if 'chaos' in sys.argv:
        return chaos(exe, count)
    bad = 0
    for t in range(count):
        values = [gen_value(3) for _ in range(random.randint(1, 5))]
        toks = []
        if 'clear' in sys.argv:
            for v in [gen_value(3) for _ in range(random.randint(1, 4))]:
                emit(v, toks)
            toks.append('snap'); toks.append('clear')
        for v in values:
            emit(v, toks)
            if random.random() < 0.3:
                toks.append('snap')
        root = new_node()
        collect(values, root)
        exp = [fill(v, root) for v in values]
        with tempfile.NamedTemporaryFile('w', suffix='.ab', delete=False) as f:
            f.write(' '.join(toks))
        r = subprocess.run([exe, f.name, str(random.choice([1, 2, 8]))], capture_output=True, text=True, timeout=30,
                           env=dict(os.environ, ASAN_OPTIONS='detect_leaks=0', UBSAN_OPTIONS='halt_on_error=1:exitcode=87'), errors='replace')
        os.unlink(f.name)
        line = r.stdout.strip().splitlines()[-1] if r.stdout.strip() else 'CRASH %d %s' % (r.returncode, r.stderr[-300:])
        ok = False
        if line.startswith('OK '):
            head, js = line[3:].split('|', 1)
            changed, _, verr = head.partition(' ')
            try:
                got = json.loads(js)
                ok = changed == '0' and verr == '' and same(got, exp)
            except ValueError:
                ok = False
        if not ok:
            bad += 1
            if bad <= 10:
                print('MISMATCH\n   values %s\n   tokens %s\n   got %s\n   exp %s' % (values, ' '.join(toks), line[:600], json.dumps(exp)[:600]))
    print('mismatches', bad, 'of', count)


main()
