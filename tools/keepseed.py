#!/usr/bin/env python3
"""keepseed.py <seed dir> <A|B> <result json> [extra note]: store a confirmed seeded change under /verif/seeded/<prop>_<X>/"""
import sys, os, json, shutil, glob
seed, X, resf = sys.argv[1:4]
note = sys.argv[4] if len(sys.argv) > 4 else ''
meta = json.load(open(os.path.join(seed, X + '_meta.json')))
res = json.load(open(resf))
prop = meta.get('property') or os.path.basename(seed).replace('seed_', '')
d = '/verif/seeded/%s_%s' % (prop, X)
os.makedirs(d, exist_ok=True)
shutil.copy(os.path.join(seed, X + '.patch'), os.path.join(d, 'patch.diff'))
for f in glob.glob(os.path.join(seed, X + '_demo*')) + glob.glob(os.path.join(seed, X + '_run.sh')) + glob.glob(os.path.join(seed, 'common*.py')):
    if os.path.isdir(f):
        shutil.copytree(f, os.path.join(d, os.path.basename(f)), dirs_exist_ok=True)
    else:
        shutil.copy(f, d)
out = dict(property=prop, files=meta.get('files'), summary=meta.get('summary'), needs=meta.get('needs'), why_tests_pass=meta.get('why_tests_pass'),
           confirmed=dict(demo_clean_exit=res.get('demo_clean_exit'), demo_patched_exit=res.get('demo_patched_exit'), applies=res.get('applies'),
                          how='tools/seedtest.py: demo run in a scratch worktree of /repo without and with the patch; then patch applied to /repo, quick checks run, patch reverted'),
           checks={p: dict(exit=c['exit'], violations=c['violations'], wall_s=c['wall'], first=c.get('first'), detail=c.get('detail', [])[:1]) for p, c in res.get('checks', {}).items()},
           caught_by=[p for p, c in res.get('checks', {}).items() if c['violations']], note=note)
json.dump(out, open(os.path.join(d, 'meta.json'), 'w'), indent=1)
print(d, out['caught_by'])
