import re, subprocess, sys
from vf.mharness import module_of
src, pat = sys.argv[1], sys.argv[2]
mod = module_of(src)
names = [n for n in mod.func_src if re.search(pat, n)]
for n in names:
    f = mod.func(n)
    cal = {}
    for b in f.blocks.values():
        for i in b:
            if i.op in ('call', 'invoke'):
                m = re.search(r'@([\w.$]+)\(', i.text)
                k = m.group(1) if m else 'INDIRECT'
                cal[k] = cal.get(k, 0) + 1
    ks = [k for k in cal if k != 'INDIRECT' and not k.startswith('llvm.lifetime')]
    dm = subprocess.run(['llvm-cxxfilt-14'] + ks + [n], capture_output=True, text=True).stdout.split('\n')
    print('==', n, dm[len(ks)][:140], 'blocks', len(f.blocks), 'ins', sum(len(b) for b in f.blocks.values()), 'indirect', cal.get('INDIRECT', 0))
    for k, d in zip(ks, dm):
        print('  ', cal[k], 'DEF' if mod.has(k) else 'ext', d[:170])
