#!/bin/bash
# offline bootstrap of /verif/.venv (overlay on /venv for PyYAML, z3-solver from the wheelhouse); idempotent
set -e
cd "$(dirname "$0")"
if [ ! -x .venv/bin/python ] || ! .venv/bin/python -c "import z3, yaml" 2>/dev/null; then
  rm -rf .venv
  /venv/bin/python -m venv .venv
  echo "import site; site.addsitedir('/venv/lib/python3.12/site-packages')" > .venv/lib/python3.12/site-packages/_venv_overlay.pth
  PIP_NO_INDEX=1 .venv/bin/pip install -q --no-index --find-links /opt/veriftools/wheels z3-solver
fi
mkdir -p .cache evidence replay
echo "setup ok"
